#!/usr/bin/env python3
"""Generates MANIFEST.json from the table below (kept in one place so it stays schema-valid)."""
import json, sys

CHECKS = {
 # id: (design section, level text, level note, technique)
}

def load():
    import importlib.util, os
    spec = importlib.util.spec_from_file_location("manifest_table", os.path.join(os.path.dirname(__file__), "manifest_table.py"))
    m = importlib.util.module_from_spec(spec); spec.loader.exec_module(m)
    return m

def main():
    t = load()
    checks = []
    for pid, c in sorted(t.CHECKS.items()):
        checks.append({
            "property_id": pid,
            "quick_cmd": f"./check {pid} quick",
            "thorough_cmd": f"./check {pid} thorough",
            "evidence_file": f"/verif/evidence/{pid}.json",
            "replay_cmd_template": "./check replay {path}",
            "engine": "perpmc",
            "level_claimed": {"category": "model_checking", "text": c["text"], "design_ref": c["design"]},
            "level_note": c["note"],
            "technique": c["technique"],
        })
    all_ids = [json.loads(l)["id"] for l in open("/verif/properties.jsonl")]
    na = [{"property_id": i, "reason": t.NOT_APPLICABLE.get(i, "check not built yet in this round; see DESIGN.md")} for i in all_ids if i not in t.CHECKS]
    m = {
        "version": 1,
        "setup_cmd": "./check build",
        "hooks": {
            "guard": "margined_protocol_perpetuals_verif",
            "enable": "none needed: the harness links the unmodified contracts natively and observes them through entry points, raw storage and a router tap (no source hooks)",
            "baseline_off_cmd": "cd /repo && cargo test --workspace --no-fail-fast --offline",
            "source_commits": [],
            "add_only": True,
        },
        "engines": [{
            "name": "perpmc",
            "path": "/verif/mc",
            "serves_properties": sorted(t.CHECKS.keys()),
            "kind_free_text": "explicit-state breadth-first model checker over the real CosmWasm contracts linked natively into a cw-multi-test chain with snapshot-able storage, router taps (dispatch log, fault injection) and reference monitors",
        }],
        "checks": checks,
        "not_applicable": na,
        "notes": t.NOTES,
    }
    json.dump(m, open("/verif/MANIFEST.json", "w"), indent=1)
    print("MANIFEST.json:", len(checks), "checks,", len(na), "not_applicable")

if __name__ == "__main__":
    main()
