NOTES = "All checks are exhaustive bounded explorations of the real contracts (see DESIGN.md). VERIF_SEED is accepted and recorded but selects nothing: no check makes a random choice."
TB = "trusted base: cw-multi-test 0.13.4 as the model of wasmd (sub-message atomicity, reply dispatch, bank), cosmwasm-std 1.1.2, cw20-base 0.13.4, the harness's reference arithmetic; bounded by the listed alphabets and depths"
TECH = "explicit-state BFS over the implementation (bounded depth, exhaustive alphabet)"
CHECKS = {
 "C02": {"design": "§4 C02", "text": "every transaction sequence over the alphabet up to the depth bound, from the initial deployment and seeds, executed on the real contracts; sum of engine position sizes == vAMM net size asserted after every transaction, cross-checked against swap events", "note": TB, "technique": TECH + "; state invariant + swap-event reference monitor"},
 "C03": {"design": "§4 C03", "text": "same exploration; conservation of the sum of all tracked balances, permitted-recipient set and liquidated-trader clause asserted on every transaction, both collaterals", "note": TB, "technique": TECH + "; step invariant over all account balances"},
 "C10": {"design": "§4 C10", "text": "3 traders x 2 vAMMs exploration; raw position records of every non-sender (non-named) trader compared byte-for-byte across every transaction", "note": TB, "technique": TECH + "; raw-storage frame condition"},
}
NOT_APPLICABLE = {}
