#!/usr/bin/env python3
"""Rewrites the detection tables of DESIGN.md (between the DETECTION-TABLES markers) from
mutants/results_quick.txt, seeded/results_final.txt and seeded/*/meta.json."""
import json, glob, os, re
V='/verif'
def own():
    rows=[]
    for l in open(V+'/mutants/results_quick.txt'):
        p=l.split()
        if len(p)<3: continue
        name,verdict,t=p[0],p[1],p[2]
        prop,mut=name.split('__')
        rows.append((prop,mut,verdict,t))
    return rows
def seeded():
    res={}
    f=V+'/seeded/results_final.txt'
    if os.path.exists(f):
        for l in open(f):
            p=l.split()
            if len(p)<5: continue
            sid,prop,tier,verdict,t=p[:5]
            sigs=' '.join(p[5:])
            # a later line for the same (change, property) replaces the earlier one (re-runs after a check was strengthened)
            lst=res.setdefault(sid,[])
            lst[:]=[x for x in lst if x[0]!=prop]
            lst.append((prop,tier,verdict,t,sigs))
    rows=[]
    for d in sorted(glob.glob(V+'/seeded/C*-*/')):
        sid=os.path.basename(d.rstrip('/'))
        m=json.load(open(d+'meta.json'))
        rows.append((sid,m,res.get(sid,[])))
    return rows
out=[]
o=own()
det=sum(1 for r in o if r[2].startswith('DETECTED'))
out.append("**Own one-site mutants** (`mutants/make_mutants.py`, taken from the *Must detect* lists; not claimed to keep the repository's suite green). Quick tier, last full run with `seeded/run_parallel.sh` (scratch copies; detection-only mode skips the remaining explorations once one has found a violation, so the bracketed number of violation classes is a lower bound): **%d of %d detected.**\n" % (det,len(o)))
out.append("| property | mutant | quick check |\n|---|---|---|")
for prop,mut,verdict,t in o:
    out.append("| %s | `%s` | %s |" % (prop,mut,verdict.lower()))
s=seeded()
out.append("\n**Seeded changes** (`seeded/<id>/`): written by independent sub-agents that were given only the property text and a scratch worktree, each confirmed in a scratch worktree with `seeded/confirm.sh` (410 existing tests pass with the patch; the demo test fails with it and passes without). Last full run of the quick checks against each (`seeded/run_parallel.sh` on scratch copies, or `seeded/run_seeded.sh` one at a time in `/repo`; results in `seeded/results_final.txt`):\n")
out.append("| id | what the change does / needs | detected by (quick) | first signature |\n|---|---|---|---|")
nd=0; nobs=0; nown=0
for sid,m,rs in s:
    summ=(m.get('needs_to_manifest') or m.get('summary') or '')
    summ=re.sub(r'\s+',' ',summ)[:230].replace('|','/')
    cell=[]; sig=''
    ok=False
    for prop,tier,verdict,t,sigs in rs:
        cell.append("%s: %s" % (prop,verdict.lower()))
        if verdict=='DETECTED':
            ok=True
            if not sig: sig=sigs.split(' ')[0]
    if m.get('status','').startswith('obsolete'):
        nobs+=1
        out.append("| %s | %s | %s | `` |" % (sid,summ,m.get('obsolete_reason','obsolete')))
        continue
    nd+=ok
    own=any(v=='DETECTED' and prop==sid.split('-')[0] for prop,tier,v,t,sg in rs)
    nown+=own
    out.append("| %s | %s | %s | `%s` |" % (sid,summ,'; '.join(cell) or 'not run',sig))
out.append("\n%d seeded changes, %d of them obsolete after a fix of a genuine defect; of the remaining %d, %d are detected by their own property's quick check and %d by at least one registered quick check (C03-r5, which does not violate C03 as stated, by C12 and C13; C10-1, long missed by C10 itself, is now caught by it as well as by C08)." % (len(s),nobs,len(s)-nobs,nown,nd))
txt='\n'.join(out)
p=V+'/DESIGN.md'
d=open(p).read()
b='<!-- DETECTION-TABLES-BEGIN -->'; e='<!-- DETECTION-TABLES-END -->'
if b in d:
    d=d[:d.index(b)+len(b)]+'\n'+txt+'\n'+d[d.index(e):]
    open(p,'w').write(d)
    print("tables updated:",len(o),"own,",len(s),"seeded")
else:
    print("markers missing")

# ---- bounds table (from evidence files of the last runs and the thorough log if present)
import json as _j
rows=[]
for pid in ['C%02d'%i for i in range(1,21)]:
    f=V+'/evidence/%s.json'%pid
    if not os.path.exists(f): continue
    e=_j.load(open(f)); c=e['coverage']
    ex=c.get('explorations',[])
    depths=sorted(set(str(x.get('depth_completed','-')) for x in ex))
    rows.append("| %s | %s | %d | %s | %d | %d | %d | %.1f |" % (pid,e['tier'],len(ex),'/'.join(depths),c['states'],c['transitions'],c['evaluations'],e['wall_s']))
tb="| property | tier of last committed evidence | explorations | depths completed | states | transitions | executions | wall s |\n|---|---|---|---|---|---|---|---|\n"+'\n'.join(rows)
thor=V+'/thorough_results.txt'
if os.path.exists(thor):
    tb+="\n\nThorough tier, one full pass (`thorough_results.txt`):\n\n```\n"+open(thor).read()+"```\n"
d=open(p).read()
b='<!-- BOUNDS-TABLE-BEGIN -->'; e_='<!-- BOUNDS-TABLE-END -->'
if b in d:
    d=d[:d.index(b)+len(b)]+'\n'+tb+'\n'+d[d.index(e_):]
    open(p,'w').write(d); print("bounds table updated")
