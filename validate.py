#!/opt/veriftools/pyvenv/bin/python
import json, jsonschema, sys, glob
jsonschema.validate(json.load(open('/verif/MANIFEST.json')), json.load(open('/root/.vp/MANIFEST.schema.json')))
print('manifest ok')
es = json.load(open('/root/.vp/EVIDENCE.schema.json'))
for f in sorted(glob.glob('/verif/evidence/*.json')):
    jsonschema.validate(json.load(open(f)), es); print(f, 'ok')
