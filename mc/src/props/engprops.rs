//! Engine-level property checks: configurations, alphabets, seeds, bounds.
use serde_json::{json, Value};

use crate::acts::*;
use crate::engmodel::*;
use crate::evidence::*;
use crate::explorer::*;
use crate::obs::*;
use crate::props::eng::*;
use crate::world::*;

pub type OracleFnPtr = fn(&EngModel, &mut World, &EngSt, &Act, &mut StepOut) -> Option<EngSt>;

pub enum Alpha {
    Static(Vec<Act>),
    Dyn(fn(&mut World, &EngSt) -> Vec<Act>),
}

pub struct Exp {
    pub name: String,
    pub cfg: Cfg,
    pub traders: Vec<&'static str>,
    pub seeds: Vec<Vec<Act>>,
    pub alpha: Alpha,
    pub depth: usize,
    pub init_mon: Value,
}

impl Exp {
    pub fn new(name: &str, cfg: Cfg, alpha: Vec<Act>, seeds: Vec<Vec<Act>>, depth: usize) -> Exp {
        Exp {
            name: name.to_string(),
            cfg,
            traders: T3.to_vec(),
            seeds,
            alpha: Alpha::Static(alpha),
            depth,
            init_mon: Value::Null,
        }
    }
}

pub fn run_exps(run: &mut Run, oracle: OracleFnPtr, exps: Vec<Exp>, lim_tweak: impl Fn(&mut Limits)) {
    for e in exps {
        let alpha_static;
        let alpha_dyn;
        let alphabet: &AlphaFn = match &e.alpha {
            Alpha::Static(v) => {
                let v = v.clone();
                alpha_static = move |_: &mut World, _: &EngSt| v.clone();
                &alpha_static
            }
            Alpha::Dyn(f) => {
                let f = *f;
                alpha_dyn = move |w: &mut World, s: &EngSt| f(w, s);
                &alpha_dyn
            }
        };
        let oracle_c = move |m: &EngModel, w: &mut World, s: &EngSt, a: &Act, o: &mut StepOut| {
            oracle(m, w, s, a, o)
        };
        let model = EngModel {
            cfg: e.cfg.clone(),
            traders: e.traders.clone(),
            alphabet,
            oracle: &oracle_c,
            init_mon: e.init_mon.clone(),
            setup: None,
        };
        let mut lim = Limits::new(e.depth);
        lim_tweak(&mut lim);
        let params = json!({
            "cfg": to_val(&e.cfg),
            "traders": e.traders,
            "init_mon": e.init_mon,
            "alphabet_size": match &e.alpha { Alpha::Static(v) => json!(v.len()), Alpha::Dyn(_) => json!("state-dependent") },
        });
        let name = format!("{} [{}]", e.name, e.cfg.label());
        run.explore(&name, params, &model, &e.seeds, &lim);
    }
}

pub fn oracle_for(prop: &str) -> Option<OracleFnPtr> {
    Some(match prop {
        "C02" => step_c02,
        "C03" => step_c03,
        "C10" => step_c10,
        _ => return None,
    })
}

/// Re-executes a recorded trace without the explorer, printing every step.
pub fn replay_eng(prop: &str, params: &Value, actions: &Value) -> Vec<Viol> {
    let oracle = oracle_for(prop).expect("engine-level property");
    let cfg: Cfg = from_val(&params["cfg"]);
    let traders: Vec<&'static str> = params["traders"]
        .as_array()
        .map(|a| {
            a.iter()
                .filter_map(|x| x.as_str())
                .filter_map(|x| WALLETS.iter().find(|w| **w == x).copied())
                .collect()
        })
        .unwrap_or_else(|| T3.to_vec());
    let acts: Vec<Act> = from_val(actions);
    let alpha = |_: &mut World, _: &EngSt| vec![];
    let oracle_c =
        move |m: &EngModel, w: &mut World, s: &EngSt, a: &Act, o: &mut StepOut| oracle(m, w, s, a, o);
    let model = EngModel {
        cfg,
        traders,
        alphabet: &alpha,
        oracle: &oracle_c,
        init_mon: params["init_mon"].clone(),
        setup: None,
    };
    let mut ctx = model.make_ctx();
    let mut s = model.initial(&mut ctx);
    let mut all = vec![];
    for (i, a) in acts.iter().enumerate() {
        let mut out = StepOut::default();
        let ns = model.step(&mut ctx, &s, a, &mut out);
        println!("step {:2}: {:?}", i, a);
        for (t, _) in &out.tags {
            if t.starts_with("outcome:") {
                println!("          {}", t);
            }
        }
        for v in &out.viols {
            println!("          VIOLATES {} :: {}", v.sig, v.detail);
        }
        all.extend(out.viols);
        match ns {
            Some(ns) => s = ns,
            None => {
                println!("          (successor not expanded)");
                break;
            }
        }
    }
    all
}

fn next(so: &StepObs) -> Option<EngSt> {
    Some(EngSt {
        snap: so.post_snap.clone(),
        mon: Value::Null,
    })
}

fn std_seeds(tier: &Tier) -> Vec<Vec<Act>> {
    match tier {
        Tier::Quick => vec![vec![], seed_liquidatable(), seed_funded()],
        Tier::Thorough => vec![
            vec![],
            seed_liquidatable(),
            seed_liquidatable_mirror(),
            seed_funded(),
            seed_reversed(),
        ],
    }
}

fn cfg_with(cw20: bool, fees: bool, plr: u128) -> Cfg {
    Cfg {
        cw20,
        toll: if fees { 3_000 } else { 0 },
        spread: if fees { 7_000 } else { 0 },
        plr,
        ..Cfg::default()
    }
}

// ------------------------------------------------------------------------------------------ C02
fn step_c02(m: &EngModel, w: &mut World, s: &EngSt, a: &Act, out: &mut StepOut) -> Option<EngSt> {
    let so = m.observe_step(w, s, a, out);
    oracle_c02(w, &so, out);
    next(&so)
}

pub fn run_c02(tier: Tier) -> i32 {
    let mut run = Run::new("C02", tier.clone());
    run.rule = "every sequence over the listed alphabet up to the depth bound from each seed; a transition is non-trivial when the transaction executed at least one vAMM swap".into();
    run.nontrivial = vec!["c02:tx-with-swaps".into()];
    run.assumptions = vec![
        "cw-multi-test 0.13.4 models wasmd sub-message/reply semantics".into(),
        "amounts limited to the alphabet (S=20x5, M=7.000003x3.3, L=60x10)".into(),
    ];
    let alpha = StdAlpha::basic(&T2).acts();
    let mut exps = vec![];
    match tier {
        Tier::Quick => {
            exps.push(Exp::new("base", cfg_with(true, true, 250_000), alpha.clone(), std_seeds(&tier), 3));
            exps.push(Exp::new("base", cfg_with(false, false, 0), alpha.clone(), std_seeds(&tier), 3));
        }
        Tier::Thorough => {
            for cw20 in [true, false] {
                for fees in [false, true] {
                    for plr in [0, 250_000, D] {
                        exps.push(Exp::new("base", cfg_with(cw20, fees, plr), alpha.clone(), std_seeds(&tier), 4));
                    }
                }
            }
            let mut a2 = StdAlpha::basic(&T2);
            a2.n_vamms = 2;
            a2.sizes = vec![SIZE_M, SIZE_L];
            let mut c = cfg_with(true, true, 250_000);
            c.n_vamms = 2;
            exps.push(Exp::new("two-vamms", c, a2.acts(), vec![vec![], seed_liquidatable()], 4));
            let mut a3 = StdAlpha::basic(&T3);
            a3.sizes = vec![SIZE_M, SIZE_L];
            a3.deposit = None;
            a3.withdraw = None;
            a3.prices = vec![];
            exps.push(Exp::new("three-traders", cfg_with(true, false, 250_000), a3.acts(), vec![vec![], seed_liquidatable()], 5));
        }
    }
    run_exps(&mut run, step_c02, exps, |_| {});
    run.finish()
}

// ------------------------------------------------------------------------------------------ C03
fn step_c03(m: &EngModel, w: &mut World, s: &EngSt, a: &Act, out: &mut StepOut) -> Option<EngSt> {
    let so = m.observe_step(w, s, a, out);
    oracle_c03(w, &so, out);
    next(&so)
}

pub fn run_c03(tier: Tier) -> i32 {
    let mut run = Run::new("C03", tier.clone());
    run.rule = "every sequence over the alphabet (incl. self-liquidation) up to the depth bound; non-trivial = a transaction that moved collateral between accounts".into();
    run.nontrivial = vec!["c03:tx-moving-collateral".into()];
    run.assumptions = vec![
        "tracked accounts: 5 wallets, owner, bank, engine, insurance fund, fee pool, both feeds, every vAMM, the cw20 contract".into(),
    ];
    let mut al = StdAlpha::basic(&T2);
    al.self_liq = true;
    let alpha = al.acts();
    let mut exps = vec![];
    match tier {
        Tier::Quick => {
            exps.push(Exp::new("base", cfg_with(true, true, 0), alpha.clone(), std_seeds(&tier), 3));
            exps.push(Exp::new("base", cfg_with(false, true, 250_000), alpha.clone(), std_seeds(&tier), 3));
        }
        Tier::Thorough => {
            for cw20 in [true, false] {
                for fees in [false, true] {
                    for plr in [0, 250_000] {
                        exps.push(Exp::new("base", cfg_with(cw20, fees, plr), alpha.clone(), std_seeds(&tier), 4));
                    }
                }
            }
        }
    }
    run_exps(&mut run, step_c03, exps, |_| {});
    run.finish()
}

// ------------------------------------------------------------------------------------------ C10
fn step_c10(m: &EngModel, w: &mut World, s: &EngSt, a: &Act, out: &mut StepOut) -> Option<EngSt> {
    w.restore(&s.snap);
    let so = m.observe_step(w, s, a, out);
    oracle_c10(w, &so, out);
    next(&so)
}

pub fn run_c10(tier: Tier) -> i32 {
    let mut run = Run::new("C10", tier.clone());
    run.rule = "every sequence over the alphabet (3 traders, 2 vAMMs) up to the depth bound; non-trivial = a successful engine transaction executed while some other trader held a position".into();
    run.nontrivial = vec!["c10:ok-tx-with-foreign-positions".into()];
    let mut al = StdAlpha::basic(&T3);
    al.n_vamms = 2;
    al.sizes = vec![SIZE_M, SIZE_L];
    al.prices = vec![8 * D];
    al.blocks = vec![15, 3900];
    al.liquidators = vec!["liq", "bob"];
    let alpha = al.acts();
    let seed3 = vec![
        Act::open("alice", true, SIZE_M.0, SIZE_M.1),
        Act::Open { t: "alice".into(), v: 1, buy: false, margin: SIZE_M.0, lev: SIZE_M.1, limit: 0 },
        Act::open("carol", true, SIZE_S.0, SIZE_S.1),
        Act::blk(15),
        Act::open("bob", false, SIZE_L.0, SIZE_L.1),
        Act::blk(1200),
    ];
    let mut c = cfg_with(true, true, 250_000);
    c.n_vamms = 2;
    let mut exps = vec![];
    match tier {
        Tier::Quick => {
            exps.push(Exp::new("3 traders 2 vamms", c, alpha, vec![vec![], seed3], 2));
        }
        Tier::Thorough => {
            exps.push(Exp::new("3 traders 2 vamms", c.clone(), alpha.clone(), vec![vec![], seed3.clone()], 3));
            let mut cn = c.clone();
            cn.cw20 = false;
            exps.push(Exp::new("3 traders 2 vamms", cn, alpha, vec![vec![], seed3], 3));
        }
    }
    run_exps(&mut run, step_c10, exps, |_| {});
    run.finish()
}
