//! Engine-level property checks: configurations, alphabets, seeds, bounds.
use cw_multi_test::Executor;
use serde_json::{json, Value};

use crate::acts::*;
use crate::engmodel::*;
use crate::evidence::*;
use crate::explorer::*;
use crate::obs::*;
use crate::props::eng::*;
use crate::world::*;

pub type OracleFnPtr = fn(&EngModel, &mut World, &EngSt, &Act, &mut StepOut) -> Option<EngSt>;

#[derive(Clone)]
pub enum Alpha {
    Static(Vec<Act>),
    Dyn(fn(&mut World, &EngSt) -> Vec<Act>),
}

#[derive(Clone)]
pub struct Exp {
    /// extra deployment step executed on each fresh world before the initial snapshot
    pub setup: Option<fn(&mut World)>,
    pub name: String,
    pub cfg: Cfg,
    pub traders: Vec<&'static str>,
    pub seeds: Vec<Vec<Act>>,
    pub alpha: Alpha,
    pub depth: usize,
    pub init_mon: Value,
    /// alphabet and seeds are already in raw units of the world (not to be scaled by 10^(dec-6))
    pub raw: bool,
}

impl Exp {
    pub fn new(name: &str, cfg: Cfg, alpha: Vec<Act>, seeds: Vec<Vec<Act>>, depth: usize) -> Exp {
        Exp {
            setup: None,
            name: name.to_string(),
            cfg,
            traders: T3.to_vec(),
            seeds,
            alpha: Alpha::Static(alpha),
            depth,
            init_mon: Value::Null,
            raw: false,
        }
    }
}

/// 9-decimal copies of up to `max` of the cw20 experiments already in `exps` (static alphabets, or the state-dependent
/// alphabets that compute in the world's own unit): the same notation-level alphabet and seeds, executed against a
/// deployment whose token, engine and vAMMs carry 9 decimals.
pub fn push_dec9(exps: &mut Vec<Exp>, max: usize, dyn_ok: bool) {
    // the quick tier (max == 1) runs the copy one level shallower
    let cut = if max == 1 { 1 } else { 0 };
    let mut add = vec![];
    for e in exps.iter() {
        if add.len() >= max {
            break;
        }
        if !e.cfg.cw20 || e.cfg.dec != 6 || e.name.contains("configuration sweep") {
            continue;
        }
        if matches!(e.alpha, Alpha::Dyn(_)) && !dyn_ok {
            continue;
        }
        let mut c = e.clone();
        c.cfg.dec = 9;
        c.depth = c.depth.saturating_sub(cut).max(2);
        add.push(c);
    }
    exps.extend(add);
}

pub fn run_exps(run: &mut Run, oracle: OracleFnPtr, exps: Vec<Exp>, lim_tweak: impl Fn(&mut Limits)) {
    for e in exps {
        // alphabets and seeds are written in 6-decimal notation; actions are executed in raw units
        let k = if e.raw { 1 } else { e.cfg.k() };
        let seeds: Vec<Vec<Act>> = e.seeds.iter().map(|s| s.iter().map(|a| a.scaled(k)).collect()).collect();
        let alpha_static;
        let alpha_dyn;
        let alphabet: &AlphaFn = match &e.alpha {
            Alpha::Static(v) => {
                let v: Vec<Act> = v.iter().map(|a| a.scaled(k)).collect();
                alpha_static = move |_: &mut World, _: &EngSt| v.clone();
                &alpha_static
            }
            Alpha::Dyn(f) => {
                let f = *f;
                alpha_dyn = move |w: &mut World, s: &EngSt| f(w, s);
                &alpha_dyn
            }
        };
        let oracle_c = move |m: &EngModel, w: &mut World, s: &EngSt, a: &Act, o: &mut StepOut| {
            let ns = oracle(m, w, s, a, o)?;
            // a state in which engine and vAMM no longer mirror each other is reported by C02 at the
            // step that caused it and is not expanded by any check
            w.restore(&ns.snap);
            if mirror_broken(w) {
                o.tag("pruned:engine-and-vamm-out-of-step");
                return None;
            }
            Some(ns)
        };
        let setup_c;
        let setup: Option<&(dyn Fn(&mut World) + Sync)> = match e.setup {
            Some(f) => {
                setup_c = move |w: &mut World| f(w);
                Some(&setup_c)
            }
            None => None,
        };
        let model = EngModel {
            cfg: e.cfg.clone(),
            traders: e.traders.clone(),
            alphabet,
            oracle: &oracle_c,
            init_mon: e.init_mon.clone(),
            setup,
        };
        let mut lim = Limits::new(e.depth);
        lim_tweak(&mut lim);
        let params = json!({
            "cfg": to_val(&e.cfg),
            "traders": e.traders,
            "init_mon": e.init_mon,
            "setup": if e.setup.is_some() { json!(e.name) } else { Value::Null },
            "alphabet_size": match &e.alpha { Alpha::Static(v) => json!(v.len()), Alpha::Dyn(_) => json!("state-dependent") },
        });
        let name = format!("{} [{}]", e.name, e.cfg.label());
        run.explore(&name, params, &model, &seeds, &lim);
    }
}

pub fn oracle_for(prop: &str) -> Option<OracleFnPtr> {
    Some(match prop {
        "C02" => step_c02,
        "C03" => step_c03,
        "C10" => step_c10,
        "C04" => step_c04,
        "C05" => step_c05,
        "C06" => step_c06,
        "C07" => step_c07,
        "C08" => step_c08,
        "C11" => step_c11,
        "C12" => step_c12,
        "C15" => step_c15,
        "C16" => step_c16,
        "C20" => crate::props::adminprops::oracle_c20(),
        "C14" => crate::props::adminprops::oracle_c14(),
        "C17" => step_c17_eng,
        _ => return None,
    })
}

/// Re-executes a recorded trace without the explorer, printing every step.
pub fn replay_eng(prop: &str, params: &Value, actions: &Value) -> Vec<Viol> {
    let oracle = oracle_for(prop).expect("engine-level property");
    let cfg: Cfg = from_val(&params["cfg"]);
    let traders: Vec<&'static str> = params["traders"]
        .as_array()
        .map(|a| {
            a.iter()
                .filter_map(|x| x.as_str())
                .filter_map(|x| WALLETS.iter().find(|w| **w == x).copied())
                .collect()
        })
        .unwrap_or_else(|| T3.to_vec());
    let acts: Vec<Act> = from_val(actions);
    let alpha = |_: &mut World, _: &EngSt| vec![];
    let oracle_c =
        move |m: &EngModel, w: &mut World, s: &EngSt, a: &Act, o: &mut StepOut| oracle(m, w, s, a, o);
    let setup_c;
    let setup: Option<&(dyn Fn(&mut World) + Sync)> = match params["setup"].as_str() {
        Some(n) if n.starts_with("3 traders 2 vamms") => {
            setup_c = |w: &mut World| setup_c10(w);
            Some(&setup_c)
        }
        _ => None,
    };
    let model = EngModel {
        cfg,
        traders,
        alphabet: &alpha,
        oracle: &oracle_c,
        init_mon: params["init_mon"].clone(),
        setup,
    };
    let mut ctx = model.make_ctx();
    let mut s = model.initial(&mut ctx);
    let mut all = vec![];
    for (i, a) in acts.iter().enumerate() {
        let mut out = StepOut::default();
        let ns = model.step(&mut ctx, &s, a, &mut out);
        println!("step {:2}: {:?}", i, a);
        for (t, _) in &out.tags {
            if t.starts_with("outcome:") {
                println!("          {}", t);
            }
        }
        for v in &out.viols {
            println!("          VIOLATES {} :: {}", v.sig, v.detail);
        }
        all.extend(out.viols);
        match ns {
            Some(ns) => s = ns,
            None => {
                println!("          (successor not expanded)");
                break;
            }
        }
    }
    all
}

fn next(so: &StepObs) -> Option<EngSt> {
    Some(EngSt {
        snap: so.post_snap.clone(),
        mon: Value::Null,
    })
}

fn std_seeds(tier: &Tier) -> Vec<Vec<Act>> {
    match tier {
        Tier::Quick => vec![vec![], seed_liquidatable(), seed_funded()],
        Tier::Thorough => vec![
            vec![],
            seed_liquidatable(),
            seed_liquidatable_mirror(),
            seed_funded(),
            seed_reversed(),
        ],
    }
}

/// like cfg_with, with initial 10% / maintenance 6.25% / liquidation fee 2.5%: leaves room between
/// the liquidation fee and maintenance, where partial liquidations happen
fn cfg_liq(cw20: bool, fees: bool, plr: u128) -> Cfg {
    Cfg {
        imr: 100_000,
        mmr: 62_500,
        liq_fee: 25_000,
        ..cfg_with(cw20, fees, plr)
    }
}

/// A pairwise covering array over the configuration dimensions {collateral, fees, partial ratio
/// 0/25%/100%, margin band (10%/6.25% vs 5%/5%), liquidation fee zero/non-zero, fluctuation limit
/// 0/5%, insurance fund rich/poor, vAMM naming the engine's insurance fund or another address, 6 or 9 decimals
/// (cw20 only: the engine accepts only 6-decimal native denominations)}: every pair of values of two dimensions occurs in some row
/// (greedy construction over the 768-row product, deterministic).
pub fn covering_configs() -> Vec<Cfg> {
    let dims: [usize; 9] = [2, 2, 3, 2, 2, 2, 2, 2, 2];
    let mut all: Vec<[usize; 9]> = vec![];
    let mut idx = [0usize; 9];
    loop {
        all.push(idx);
        let mut i = 0;
        loop {
            idx[i] += 1;
            if idx[i] < dims[i] {
                break;
            }
            idx[i] = 0;
            i += 1;
            if i == 9 {
                break;
            }
        }
        if i == 9 {
            break;
        }
    }
    let mut uncovered: std::collections::BTreeSet<(usize, usize, usize, usize)> = Default::default();
    for a in 0..9 {
        for b in (a + 1)..9 {
            for x in 0..dims[a] {
                for y in 0..dims[b] {
                    uncovered.insert((a, x, b, y));
                }
            }
        }
    }
    let mut rows = vec![];
    while !uncovered.is_empty() {
        let best = all
            .iter()
            .max_by_key(|r| {
                let mut n = 0;
                for a in 0..9 {
                    for b in (a + 1)..9 {
                        if uncovered.contains(&(a, r[a], b, r[b])) {
                            n += 1;
                        }
                    }
                }
                (n, std::cmp::Reverse(**r))
            })
            .unwrap()
            .clone();
        for a in 0..9 {
            for b in (a + 1)..9 {
                uncovered.remove(&(a, best[a], b, best[b]));
            }
        }
        rows.push(best);
    }
    rows.into_iter()
        .map(|r| {
            let band = r[3] == 0;
            let mut c = Cfg {
                cw20: r[0] == 0,
                toll: if r[1] == 1 { 3_000 } else { 0 },
                spread: if r[1] == 1 { 7_000 } else { 0 },
                plr: [0, 250_000, D][r[2]],
                imr: if band { 100_000 } else { 50_000 },
                mmr: if band { 62_500 } else { 50_000 },
                liq_fee: if r[4] == 0 { 0 } else if band { 25_000 } else { 50_000 },
                fluct: if r[5] == 0 { 0 } else { 50_000 },
                ..Cfg::default()
            };
            if r[6] == 1 {
                c.if_funds = 50_000;
            }
            c.vamm_if_other = r[7] == 1;
            // the engine only knows 6-decimal native denominations; 9 decimals needs a cw20 token
            c.dec = if r[8] == 1 && c.cw20 { 9 } else { 6 };
            c
        })
        .collect()
}

/// Dust positions: a few raw units, next to one ordinary size that moves the price. Two pools: the standard one
/// (price 10: positions of 1-3 raw BASE units, whose partial-liquidation slice rounds to zero) and a cheap one (price
/// 0.1: positions whose value rounds to zero QUOTE units). Liquidation-band ratios with a 25% partial ratio, so dust
/// opened at 10x can become liquidatable. Amounts are raw units.
pub fn push_dust(exps: &mut Vec<Exp>, cw20: bool, depth: usize) {
    // seeds take four steps; the depth given is what is explored after them (one less than from the empty history)
    for (q, b, big) in [(100 * D, 1000 * D, (5 * D, 2 * D)), (1000 * D, 100 * D, (25 * D, 2 * D))] {
        let mut c = cfg_liq(cw20, false, 250_000);
        c.quote_reserve = q;
        c.base_reserve = b;
        let mut acts = vec![];
        for t in T2 {
            for buy in [true, false] {
                for (m, l) in [(1u128, D), (3, D), (12, D), (25, 2 * D), (1, 10 * D), (3, 10 * D), (13, 3_076_923), big] {
                    acts.push(Act::Open { t: t.into(), v: 0, buy, margin: m, lev: l, limit: 0 });
                }
            }
            acts.push(Act::close(t));
            acts.push(Act::Liq { by: "liq".into(), t: t.into(), v: 0, limit: 0 });
        }
        acts.push(Act::close("carol"));
        acts.push(Act::Liq { by: "liq".into(), t: "carol".into(), v: 0, limit: 0 });
        acts.push(Act::blk(15));
        acts.push(Act::blk(1200));
        acts.push(px_at_spot());
        // seeds: a dust position and an ordinary 10x position made slightly under-margined (price moved ~4% against them, TWAP caught up,
        // oracle at spot), in both directions: its partial-liquidation slice is 0 base units (price 10) / a few units
        // worth less than their fee (price 0.1)
        let mover = q * 3 / 100; // notional moving the price by ~6% (net ~4% after carol's own 1% notional)
        let mut seeds = vec![vec![]];
        for long in [true, false] {
            // (13 at 3.08x: 40 units of notional buy 3 base units worth 30 - the rounding loss eats most of the margin)
            for (m, l) in [(1u128, 10 * D), (3, 10 * D), (13, 3_076_923)] {
                seeds.push(vec![
                    // an ordinary 10x position on the same side (carol) becomes partially liquidatable together with the dust
                    Act::Open { t: "alice".into(), v: 0, buy: long, margin: m, lev: l, limit: 0 },
                    Act::Open { t: "carol".into(), v: 0, buy: long, margin: q / 1000, lev: 10 * D, limit: 0 },
                    Act::Open { t: "bob".into(), v: 0, buy: !long, margin: mover, lev: D, limit: 0 },
                    Act::blk(1200),
                    px_at_spot(),
                ]);
            }
        }
        if q < b {
            // the two histories on which the thorough tier first found a refused dust liquidation (fixed in 906a7b7 and
            // 538cd6a): a position worth zero quote units at the oracle price, and a full liquidation with a zero fee
            seeds.push(vec![
                Act::Open { t: "alice".into(), v: 0, buy: true, margin: 5 * D, lev: 2 * D, limit: 0 },
                Act::Open { t: "bob".into(), v: 0, buy: false, margin: 1, lev: D, limit: 0 },
                Act::blk(1200),
            ]);
            seeds.push(vec![
                Act::Open { t: "alice".into(), v: 0, buy: true, margin: 3, lev: 10 * D, limit: 0 },
                Act::Open { t: "carol".into(), v: 0, buy: true, margin: 100_000, lev: 10 * D, limit: 0 },
                Act::Open { t: "bob".into(), v: 0, buy: false, margin: 3 * D, lev: D, limit: 0 },
                Act::blk(1200),
                px_at_spot(),
                Act::close("carol"),
                Act::Liq { by: "liq".into(), t: "alice".into(), v: 0, limit: 0 },
            ]);
        }
        let name = if q < b { "dust positions, price 0.1" } else { "dust positions, price 10" };
        let from_scratch = vec![seeds.remove(0)];
        for (sd, d) in [(from_scratch, depth), (seeds, depth - 1)] {
            let mut e = Exp::new(name, c.clone(), acts.clone(), sd, d);
            e.traders = T3.to_vec();
            e.raw = true;
            exps.push(e);
        }
    }
}

/// Two vAMMs on one engine: positions, liquidations and funding settlements interleaved across both markets (per-vAMM
/// bookkeeping: cumulative premium fractions, restriction marker, open interest, position keys).
pub fn push_two_vamms(exps: &mut Vec<Exp>, depth: usize) {
    let mut al = StdAlpha::basic(&T2);
    al.n_vamms = 2;
    al.sizes = vec![SIZE_M];
    al.deposit = None;
    al.withdraw = Some(3 * D);
    al.liquidators = vec!["liq"];
    al.rel_prices = vec![(1, 1)];
    al.prices = vec![8 * D];
    al.blocks = vec![15, 3900];
    let alpha = al.acts();
    let o = |t: &str, v: usize, buy: bool, m: u128, l: u128| Act::Open { t: t.into(), v, buy, margin: m, lev: l, limit: 0 };
    let seed = |secs: u64| {
        vec![
            o("alice", 0, true, 25 * D, 10 * D),
            o("bob", 1, true, 25 * D, 10 * D),
            Act::blk(15),
            o("bob", 0, false, 45 * D, D),
            o("alice", 1, false, 45 * D, D),
            Act::blk(secs),
            Act::PxRel { v: 0, num: 1, den: 1 },
        ]
    };
    let mut c = cfg_liq(true, true, 250_000);
    c.n_vamms = 2;
    let mut e = Exp::new("two vAMMs", c, alpha, vec![vec![], seed(1200), seed(3900)], depth);
    e.traders = T2.to_vec();
    exps.push(e);
}

/// A deep pool and large positions (1e9 quote units against 1e8 base units, 9 decimals, trades of 1e7 x 10): the same
/// alphabet and seeds as the standard pool, multiplied by 1e6 - magnitudes near the top of what the arithmetic sees.
pub fn push_whale(exps: &mut Vec<Exp>, depth: usize) {
    let m = 1_000_000u128;
    let mut c = cfg_liq(true, true, 250_000);
    c.dec = 9;
    c.quote_reserve = 1000 * D * m;
    c.base_reserve = 100 * D * m;
    c.wallet = 5_000 * D * m;
    c.if_funds = 5_000 * D * m;
    let scale = |a: &Act| -> Act {
        match a.clone() {
            Act::Open { t, v, buy, margin, lev, limit } => Act::Open { t, v, buy, margin: margin * m, lev, limit },
            Act::Dep { t, v, amt } => Act::Dep { t, v, amt: amt * m },
            Act::Wd { t, v, amt } => Act::Wd { t, v, amt: amt * m },
            x => x,
        }
    };
    let alpha: Vec<Act> = liq_alpha(false).iter().map(scale).collect();
    let seeds: Vec<Vec<Act>> = liq_seeds().iter().map(|s| s.iter().map(scale).collect()).collect();
    let mut e = Exp::new("deep pool, large positions", c, alpha, seeds, depth);
    e.traders = T3.to_vec();
    exps.push(e);
}

/// Partial closes (fluctuation limit 5%, partial ratio 25%, trades sized around the band edge) in a pool priced 0.1,
/// where a quote amount and the base amount it stands for no longer round-trip exactly.
pub fn push_partial_close_cheap(exps: &mut Vec<Exp>, depth: usize) {
    let mut c = cfg_with(true, true, 250_000);
    c.fluct = 50_000;
    c.imr = 100_000;
    c.quote_reserve = 100 * D;
    c.base_reserve = 1000 * D;
    exps.push(Exp { setup: None, name: "partial close, price 0.1".into(), cfg: c, traders: T2.to_vec(), seeds: vec![vec![]], alpha: Alpha::Dyn(alpha_c15), depth, init_mon: Value::Null, raw: false });
}

/// Tight wallet allowances (cw20 collateral, fees on): a trader sets the engine's allowance on their wallet to zero, to an
/// amount that covers some of the transfers an operation pulls but not all of them, and back to plenty, between
/// trades. A pull that the allowance does not cover is a natural failure of one sub-message in the middle of a
/// transaction.
pub fn push_allowance(exps: &mut Vec<Exp>, depth: usize) {
    let mut al = StdAlpha::basic(&T2);
    al.sizes = vec![SIZE_S, SIZE_M];
    al.deposit = Some(5 * D);
    al.withdraw = None;
    al.funding = false;
    al.prices = vec![];
    al.blocks = vec![15];
    let mut alpha = al.acts();
    for amt in [0, 500_000, 20 * D + 500_000, u128::MAX / 8] {
        alpha.push(Act::Allowance { t: "alice".into(), amt });
    }
    let seeds = vec![
        vec![],
        vec![Act::open("alice", true, SIZE_S.0, SIZE_S.1), Act::open("bob", false, SIZE_M.0, SIZE_M.1), Act::blk(15)],
        vec![Act::open("alice", false, SIZE_M.0, SIZE_M.1), Act::open("bob", false, SIZE_S.0, SIZE_S.1), Act::blk(15), Act::Allowance { t: "alice".into(), amt: 0 }],
    ];
    exps.push(Exp::new("tight wallet allowance", cfg_with(true, true, 0), alpha, seeds, depth));
}

/// Entry points outside the harness's alphabets: every engine execute variant the alphabets have no action for is
/// exercised with messages synthesised from the contract's own JSON schema (synth.rs), sent by an account without a
/// position and by a trader, in a state where three traders hold positions. Nothing to explore on a tree whose
/// execute variants are all known.
pub fn push_unknown_variants(exps: &mut Vec<Exp>, run: &mut Run) {
    for cw20 in [true, false] {
        let cfg = cfg_liq(cw20, true, 250_000);
        let w = World::new(&cfg);
        let msgs = crate::synth::unknown_engine_msgs(&w);
        if msgs.is_empty() {
            continue;
        }
        let mut names: Vec<String> = msgs.iter().map(|m| m.0.clone()).collect();
        names.dedup();
        run.assumptions.push(format!("engine execute variants outside the action alphabets, exercised with {} schema-synthesised messages: {:?}", msgs.len(), names));
        let mut alpha = vec![];
        for (_, m) in &msgs {
            for by in ["stranger", "carol"] {
                alpha.push(Act::RawExec { by: by.into(), json: m.to_string() });
            }
        }
        let seeds = vec![
            vec![Act::open("alice", true, SIZE_M.0, SIZE_M.1), Act::open("bob", false, SIZE_S.0, SIZE_S.1), Act::open("carol", true, SIZE_S.0, SIZE_S.1), Act::blk(15)],
            seed_liquidatable(),
        ];
        let mut e = Exp::new("entry points outside the alphabets", cfg, alpha, seeds, 1);
        e.traders = T3.to_vec();
        e.raw = true;
        exps.push(e);
    }
}

/// Configuration changed mid-history: the owner's legal updates of the engine ratios and of the vAMM's fee and band
/// settings are actions, interleaved with trades, liquidations and funding on positions opened under the old values.
/// The oracles read the configuration in force (`World::live_cfg`).
pub fn push_cfgchange(exps: &mut Vec<Exp>, depth: usize) {
    let mut al = StdAlpha::basic(&T2);
    al.sizes = vec![SIZE_M];
    al.deposit = None;
    al.liquidators = vec!["liq"];
    al.rel_prices = vec![(1, 1)];
    al.prices = vec![];
    al.blocks = vec![15];
    let mut alpha = al.acts();
    let e = |imr: Option<u128>, mmr: Option<u128>, plr: Option<u128>, lf: Option<u128>| Act::EngConfig { by: "owner".into(), imr, mmr, plr, lf };
    let v = |toll: Option<u128>, spread: Option<u128>, fluct: Option<u128>| Act::VammConfig { by: "owner".into(), v: 0, toll, spread, fluct, twap: None };
    alpha.extend([
        e(None, None, Some(0), None),
        e(None, None, Some(250_000), None),
        e(None, None, Some(D), None),
        e(None, None, None, Some(0)),
        e(None, None, None, Some(25_000)),
        e(Some(100_000), Some(62_500), None, None),
        e(Some(50_000), Some(50_000), None, None),
        v(Some(0), Some(0), None),
        v(Some(3_000), Some(7_000), None),
        v(None, None, Some(0)),
        v(None, None, Some(50_000)),
        Act::VammConfig { by: "owner".into(), v: 0, toll: None, spread: None, fluct: None, twap: Some(600) },
        Act::VammConfig { by: "owner".into(), v: 0, toll: None, spread: None, fluct: None, twap: Some(3 * 3600) },
    ]);
    let seeds = vec![vec![], seed_liquidatable(), seed_slightly_under(), seed_funded(), seed_band_liquidatable()];
    for cw20 in [true, false] {
        let mut x = Exp::new("configuration changed mid-history", cfg_liq(cw20, false, 250_000), alpha.clone(), seeds.clone(), depth);
        x.traders = T3.to_vec();
        exps.push(x);
    }
}

/// shallow explorations over the covering array (breadth over configurations)
pub fn push_sweep(exps: &mut Vec<Exp>, depth: usize) {
    let mut al = StdAlpha::basic(&T2);
    al.sizes = vec![SIZE_M, (2 * D, 10 * D)];
    al.liquidators = vec!["liq", "bob"];
    al.rel_prices = vec![(1, 1)];
    al.prices = vec![8 * D];
    al.blocks = vec![15, 3900];
    let mut alpha = al.acts();
    // configuration updates the contracts must reject (if one is accepted, what follows is checked too)
    alpha.push(Act::EngConfig { by: "owner".into(), imr: None, mmr: None, plr: Some(D + 50_000), lf: None });
    alpha.push(Act::EngConfig { by: "owner".into(), imr: None, mmr: None, plr: None, lf: Some(D + 50_000) });
    alpha.push(Act::EngConfig { by: "owner".into(), imr: Some(10_000), mmr: Some(900_000), plr: None, lf: None });
    // the market shut down and re-opened, the engine paused and resumed, between the other operations
    alpha.push(Act::SetOpen { by: "owner".into(), v: 0, open: false });
    alpha.push(Act::SetOpen { by: "owner".into(), v: 0, open: true });
    alpha.push(Act::SetPause { by: "owner".into(), pause: true });
    alpha.push(Act::SetPause { by: "owner".into(), pause: false });
    // degenerate inputs: zero amounts and zero leverage (an accepted one is then judged like any other operation)
    alpha.push(Act::Dep { t: "alice".into(), v: 0, amt: 0 });
    alpha.push(Act::Wd { t: "alice".into(), v: 0, amt: 0 });
    alpha.push(Act::Open { t: "alice".into(), v: 0, buy: true, margin: 0, lev: 2 * D, limit: 0 });
    alpha.push(Act::Open { t: "alice".into(), v: 0, buy: false, margin: 5 * D, lev: 0, limit: 0 });
    let seeds = vec![
        vec![],
        seed_liquidatable(),
        seed_liquidatable_mirror(),
        seed_slightly_under(),
        seed_slightly_under_mirror(),
        seed_funded(),
        seed_band_liquidatable(),
        seed_vault_drained(),
        seed_vault_drained_shorts(),
        seed_funding_exceeds_margin(),
        seed_funding_receiver_slightly_under(true),
        seed_funding_receiver_slightly_under(false),
    ];
    for c in covering_configs() {
        let mut e = Exp::new("configuration sweep", c, alpha.clone(), seeds.clone(), depth);
        e.traders = T3.to_vec();
        exps.push(e);
    }
}

fn with_funding_due(seed: Vec<Act>) -> Vec<Act> {
    seed.into_iter()
        .map(|a| match a {
            Act::Blk { blocks, secs: 1200, ms } => Act::Blk { blocks, secs: 3900, ms },
            x => x,
        })
        .collect()
}

fn cfg_with(cw20: bool, fees: bool, plr: u128) -> Cfg {
    Cfg {
        cw20,
        toll: if fees { 3_000 } else { 0 },
        spread: if fees { 7_000 } else { 0 },
        plr,
        ..Cfg::default()
    }
}

// ------------------------------------------------------------------------------------------ C02
fn step_c02(m: &EngModel, w: &mut World, s: &EngSt, a: &Act, out: &mut StepOut) -> Option<EngSt> {
    let so = m.observe_step(w, s, a, out);
    oracle_c02(w, &so, out);
    next(&so)
}

pub fn run_c02(tier: Tier) -> i32 {
    let mut run = Run::new("C02", tier.clone());
    run.rule = "every sequence over the listed alphabet up to the depth bound from each seed; a transition is non-trivial when the transaction executed at least one vAMM swap".into();
    run.nontrivial = vec!["c02:tx-with-swaps".into()];
    run.assumptions = vec![
        "cw-multi-test 0.13.4 models wasmd sub-message/reply semantics".into(),
        "amounts limited to the alphabet (S=20x5, M=7.000003x3.3, L=60x10)".into(),
    ];
    let alpha = StdAlpha::basic(&T2).acts();
    let mut exps = vec![];
    match tier {
        Tier::Quick => {
            // the deepest level with the size-changing operations only (two sizes, two block steps, one oracle move);
            // the full alphabet one level less deep
            let mut deep = StdAlpha::basic(&T2);
            deep.sizes = vec![SIZE_M, SIZE_L];
            deep.deposit = None;
            deep.withdraw = None;
            deep.blocks = vec![15, 1200];
            deep.prices = vec![8 * D];
            exps.push(Exp::new("base, size-changing operations", cfg_with(true, true, 250_000), deep.acts(), std_seeds(&tier), 4));
            exps.push(Exp::new("base", cfg_with(true, true, 250_000), alpha.clone(), std_seeds(&tier), 3));
            exps.push(Exp::new("base", cfg_with(false, false, 0), alpha.clone(), std_seeds(&tier), 3));
            exps.push(Exp::new("partial-liquidation band", cfg_liq(true, false, 250_000), liq_alpha(false), liq_seeds(), 3));
            let mut z = cfg_liq(false, false, 250_000);
            z.liq_fee = 0;
            exps.push(Exp::new("zero liquidation fee", z, liq_alpha(false), liq_seeds(), 3));
            exps.push(Exp::new("partial-liquidation band", cfg_liq(true, true, D), liq_alpha(false), liq_seeds(), 3));
        }
        Tier::Thorough => {
            for cw20 in [true, false] {
                for fees in [false, true] {
                    for plr in [0, 250_000, D] {
                        exps.push(Exp::new("base", cfg_with(cw20, fees, plr), alpha.clone(), std_seeds(&tier), 4));
                    }
                }
                for lf in [0, 25_000] {
                    for plr in [250_000, D] {
                        let mut z = cfg_liq(cw20, true, plr);
                        z.liq_fee = lf;
                        exps.push(Exp::new("partial-liquidation band", z, liq_alpha(false), liq_seeds(), 4));
                    }
                }
            }
            let mut a2 = StdAlpha::basic(&T2);
            a2.n_vamms = 2;
            a2.sizes = vec![SIZE_M, SIZE_L];
            let mut c = cfg_with(true, true, 250_000);
            c.n_vamms = 2;
            exps.push(Exp::new("two-vamms", c, a2.acts(), vec![vec![], seed_liquidatable()], 4));
            let mut a3 = StdAlpha::basic(&T3);
            a3.sizes = vec![SIZE_M, SIZE_L];
            a3.deposit = None;
            a3.withdraw = None;
            a3.prices = vec![];
            exps.push(Exp::new("three-traders", cfg_with(true, false, 250_000), a3.acts(), vec![vec![], seed_liquidatable()], 5));
        }
    }
    push_sweep(&mut exps, tier.pick(2, 3));
    push_dust(&mut exps, true, tier.pick(3, 4));
    if tier == Tier::Thorough {
        push_dust(&mut exps, false, 4);
    }
    push_two_vamms(&mut exps, tier.pick(3, 4));
    push_whale(&mut exps, tier.pick(2, 3));
    push_partial_close_cheap(&mut exps, tier.pick(4, 5));
    push_cfgchange(&mut exps, tier.pick(3, 4));
    push_allowance(&mut exps, tier.pick(3, 4));
    push_dec9(&mut exps, tier.pick(1, 3), false);
    push_unknown_variants(&mut exps, &mut run);
    run_exps(&mut run, step_c02, exps, |_| {});
    run.finish()
}

// ------------------------------------------------------------------------------------------ C03
fn step_c03(m: &EngModel, w: &mut World, s: &EngSt, a: &Act, out: &mut StepOut) -> Option<EngSt> {
    let so = m.observe_step(w, s, a, out);
    oracle_c03(w, &so, out);
    next(&so)
}

pub fn run_c03(tier: Tier) -> i32 {
    let mut run = Run::new("C03", tier.clone());
    run.rule = "every sequence over the alphabet (incl. self-liquidation) up to the depth bound; non-trivial = a transaction that moved collateral between accounts".into();
    run.nontrivial = vec!["c03:tx-moving-collateral".into()];
    run.assumptions = vec![
        "tracked accounts: 5 wallets, owner, bank, engine, insurance fund, fee pool, both feeds, every vAMM, the cw20 contract".into(),
    ];
    let mut al = StdAlpha::basic(&T2);
    al.self_liq = true;
    let alpha = al.acts();
    let mut exps = vec![];
    match tier {
        Tier::Quick => {
            exps.push(Exp::new("base", cfg_with(true, true, 0), alpha.clone(), std_seeds(&tier), 3));
            exps.push(Exp::new("base", cfg_with(false, true, 250_000), alpha.clone(), std_seeds(&tier), 3));
            // the deepest level with a reduced alphabet (two sizes, two block steps, one oracle move)
            let mut deep = StdAlpha::basic(&T2);
            deep.self_liq = true;
            deep.sizes = vec![SIZE_M, SIZE_L];
            deep.blocks = vec![15, 1200];
            deep.prices = vec![8 * D];
            exps.push(Exp::new("base, reduced alphabet", cfg_with(false, true, 250_000), deep.acts(), std_seeds(&tier), 4));
            exps.push(Exp::new("liquidation band", cfg_liq(true, true, 250_000), liq_alpha(false), liq_seeds_f(), 3));
            exps.push(Exp::new("liquidation band", cfg_liq(false, false, 0), liq_alpha(false), liq_seeds_f(), 3));
            exps.push(Exp::new("liquidation band", cfg_liq(true, true, D), liq_alpha(false), liq_seeds(), 3));
        }
        Tier::Thorough => {
            for cw20 in [true, false] {
                for fees in [false, true] {
                    for plr in [0, 250_000] {
                        exps.push(Exp::new("base", cfg_with(cw20, fees, plr), alpha.clone(), std_seeds(&tier), 4));
                        exps.push(Exp::new("liquidation band", cfg_liq(cw20, fees, plr), liq_alpha(false), liq_seeds_f(), 4));
                    }
                    exps.push(Exp::new("liquidation band", cfg_liq(cw20, fees, D), liq_alpha(false), liq_seeds(), 3));
                }
            }
        }
    }
    // native coins attached to operations that take none (or more than they take): they may only end up with the
    // sender, the engine, the insurance fund or the fee pool
    {
        let mut a2 = liq_alpha(false);
        let funded: Vec<Act> = a2
            .iter()
            .filter(|a| matches!(a, Act::Close { .. } | Act::Wd { .. } | Act::Liq { limit: 0, .. } | Act::Fund { .. } | Act::Dep { .. }))
            .map(|a| Act::Funded { a: Box::new(a.clone()), funds: 7 * D })
            .collect();
        a2.extend(funded);
        a2.push(Act::Funded { a: Box::new(Act::fund()), funds: 7 * D });
        exps.push(Exp::new("unexpected native funds", cfg_liq(false, true, 250_000), a2, liq_seeds(), tier.pick(2, 3)));
    }
    push_sweep(&mut exps, tier.pick(2, 3));
    push_dust(&mut exps, true, tier.pick(3, 4));
    if tier == Tier::Thorough {
        push_dust(&mut exps, false, 4);
    }
    push_two_vamms(&mut exps, tier.pick(3, 4));
    push_whale(&mut exps, tier.pick(2, 3));
    push_partial_close_cheap(&mut exps, tier.pick(4, 5));
    push_cfgchange(&mut exps, tier.pick(3, 4));
    push_allowance(&mut exps, tier.pick(3, 4));
    push_dec9(&mut exps, tier.pick(1, 3), false);
    push_unknown_variants(&mut exps, &mut run);
    run_exps(&mut run, step_c03, exps, |_| {});
    run.finish()
}

// ------------------------------------------------------------------------------------------ C10
fn step_c10(m: &EngModel, w: &mut World, s: &EngSt, a: &Act, out: &mut StepOut) -> Option<EngSt> {
    w.restore(&s.snap);
    let so = m.observe_step(w, s, a, out);
    oracle_c10(w, &so, out);
    next(&so)
}

/// an account whose name is a suffix of a trader's ("al"+"ice"): with free-form address strings a
/// crafted vAMM string can make (vamm', sender) hash to another trader's position slot
fn setup_c10(w: &mut World) {
    let d = w.d;
    if let Some(t) = w.token.clone() {
        let eng = w.engine.to_string();
        assert!(w.exec("alice", &t, &cw20::Cw20ExecuteMsg::Transfer { recipient: "ice".into(), amount: cosmwasm_std::Uint128::new(100 * d) }, 0).ok);
        assert!(w.exec("ice", &t, &cw20::Cw20ExecuteMsg::IncreaseAllowance { spender: eng.clone(), amount: cosmwasm_std::Uint128::new(u128::MAX / 4), expires: None }, 0).ok);
        // an account whose name differs from a trader's only by a trailing zero
        assert!(w.exec("alice", &t, &cw20::Cw20ExecuteMsg::Transfer { recipient: "bob0".into(), amount: cosmwasm_std::Uint128::new(500 * d) }, 0).ok);
        assert!(w.exec("bob0", &t, &cw20::Cw20ExecuteMsg::IncreaseAllowance { spender: eng, amount: cosmwasm_std::Uint128::new(u128::MAX / 4), expires: None }, 0).ok);
    } else {
        w.app.send_tokens(cosmwasm_std::Addr::unchecked("alice"), cosmwasm_std::Addr::unchecked("ice"), &[cosmwasm_std::Coin::new(100 * d, w.denom)]).unwrap();
        w.app.send_tokens(cosmwasm_std::Addr::unchecked("alice"), cosmwasm_std::Addr::unchecked("bob0"), &[cosmwasm_std::Coin::new(500 * d, w.denom)]).unwrap();
    }
}

fn alpha_c10(w: &mut World, _s: &EngSt) -> Vec<Act> {
    let mut al = StdAlpha::basic(&T3);
    al.n_vamms = 2;
    al.sizes = vec![SIZE_M, SIZE_L];
    al.prices = vec![];
    al.rel_prices = vec![(1, 1)];
    al.blocks = vec![15, 3900];
    al.liquidators = vec!["liq", "bob"];
    let mut acts = al.acts();
    // a trader whose name is another trader's plus a trailing zero
    for v in 0..w.vamms.len() {
        for buy in [true, false] {
            acts.push(Act::Open { t: "bob0".into(), v, buy, margin: SIZE_M.0, lev: SIZE_M.1, limit: 0 });
        }
        acts.push(Act::Close { t: "bob0".into(), v, limit: 0 });
    }
    // crafted deposit: vamm string = vamm address + "al", sender "ice"
    for v in 0..w.vamms.len() {
        acts.push(Act::DepRaw { by: "ice".into(), vamm: format!("{}al", w.vamms[v]), amt: 7 * D });
        // ... and every other engine operation with the same crafted string
        for op in ["open_buy", "open_sell", "close", "withdraw", "liquidate", "pay_funding"] {
            acts.push(Act::RawOp { by: "ice".into(), op: op.into(), vamm: format!("{}al", w.vamms[v]), trader: "alice".into(), amt: 7 * D });
        }
    }
    let k = w.cfg.k();
    acts.iter().map(|a| a.scaled(k)).collect()
}

pub fn run_c10(tier: Tier) -> i32 {
    let mut run = Run::new("C10", tier.clone());
    run.rule = "every sequence over the alphabet (3 traders, 2 vAMMs, liquidation by a third party and by a trader, a crafted DepositMargin whose vAMM string + sender concatenate to another trader's key) up to the depth bound from seeds in which all three traders hold positions (one of them dust-sized) and two are liquidatable; non-trivial = a successful engine transaction executed while some other trader held a position".into();
    run.nontrivial = vec!["c10:ok-tx-with-foreign-positions".into()];
    let seed3 = vec![
        Act::open("carol", true, 9, 10 * D),
        Act::open("alice", true, 25 * D, 10 * D),
        Act::Open { t: "alice".into(), v: 1, buy: false, margin: SIZE_M.0, lev: SIZE_M.1, limit: 0 },
        Act::blk(15),
        Act::open("bob", false, 45 * D, 1 * D),
        Act::blk(1200),
        px_at_spot(),
    ];
    let seed4 = vec![
        Act::open("alice", true, SIZE_M.0, SIZE_M.1),
        Act::open("carol", true, SIZE_S.0, SIZE_S.1),
        Act::blk(15),
        Act::open("bob", false, 40 * D, 10 * D),
        Act::blk(1200),
        px_at_spot(),
    ];
    // partial ratio 10%: a position of fewer than 10 base micro-units cannot be split (dust)
    let mut c = cfg_liq(true, true, 100_000);
    c.n_vamms = 2;
    let mk = |c: Cfg, d: usize| Exp { setup: Some(setup_c10), name: "3 traders 2 vamms".into(), cfg: c, traders: T3.to_vec(), seeds: vec![vec![], seed3.clone(), seed4.clone()], alpha: Alpha::Dyn(alpha_c10), depth: d, init_mon: Value::Null, raw: false };
    let seed5 = vec![
        Act::open("alice", false, 20 * D, 10 * D),
        Act::open("carol", true, SIZE_S.0, SIZE_S.1),
        Act::blk(15),
        Act::open("bob", true, 20 * D, 1 * D),
        Act::blk(1200),
        px_at_spot(),
    ];
    let mk_full = |c: Cfg, d: usize| Exp { setup: Some(setup_c10), name: "3 traders 2 vamms, partial ratio 100%".into(), cfg: c, traders: T3.to_vec(), seeds: vec![seed5.clone(), seed4.clone()], alpha: Alpha::Dyn(alpha_c10), depth: d, init_mon: Value::Null, raw: false };
    let mut cfull = c.clone();
    cfull.plr = D;
    let mut exps = vec![];
    match tier {
        Tier::Quick => {
            exps.push(mk(c, 3));
            exps.push(mk_full(cfull, 2));
        }
        Tier::Thorough => {
            exps.push(mk(c.clone(), 4));
            let mut cn = c.clone();
            cn.cw20 = false;
            exps.push(mk(cn, 3));
            let mut c0 = c.clone();
            c0.plr = 0;
            exps.push(mk(c0, 3));
            exps.push(mk_full(cfull, 3));
        }
    }
    push_sweep(&mut exps, tier.pick(2, 2));
    push_dust(&mut exps, true, tier.pick(3, 4));
    if tier == Tier::Thorough {
        push_dust(&mut exps, false, 4);
    }
    push_cfgchange(&mut exps, tier.pick(3, 4));
    push_dec9(&mut exps, tier.pick(1, 3), true);
    // the 9-decimal copy of the deepest exploration runs one level shallower (the 6-decimal original keeps depth 4;
    // together they took 25 min of a 38 min thorough tier)
    for e in exps.iter_mut() {
        if e.cfg.dec == 9 && e.depth >= 4 {
            e.depth = 3;
        }
    }
    push_unknown_variants(&mut exps, &mut run);
    run_exps(&mut run, step_c10, exps, |_| {});
    run.finish()
}

// ------------------------------------------------------------------------------------------ C04
fn step_c04(m: &EngModel, w: &mut World, s: &EngSt, a: &Act, out: &mut StepOut) -> Option<EngSt> {
    let so = m.observe_step(w, s, a, out);
    let book = book_from_mon(&s.mon);
    let cps: CpRef = book.iter().map(|(k, r)| (k.clone(), r.cp as i128)).collect();
    oracle_c04(w, &so, out, &cps, &book);
    let nb = book_update(&book, w, &so, out, "C04");
    Some(EngSt { snap: so.post_snap.clone(), mon: book_to_mon(&nb) })
}

fn seed_two_fundings() -> Vec<Act> {
    vec![
        Act::open("alice", true, SIZE_M.0, SIZE_M.1),
        Act::open("bob", false, SIZE_S.0, SIZE_S.1),
        Act::Px { price: 8 * D },
        Act::blk(3900),
        Act::fund(),
        Act::Px { price: 12_500_000 },
        Act::blk(3900),
        Act::fund(),
    ]
}

pub fn run_c04(tier: Tier) -> i32 {
    let mut run = Run::new("C04", tier.clone());
    run.rule = "every sequence over the alphabet up to the depth bound from each seed (incl. two fundings of opposite sign, vault drained); non-trivial = a ClosePosition that succeeded, or a trader transaction that lowered the insurance fund".into();
    run.nontrivial = vec!["c04:whole-close-ok".into(), "c04:partial-close-ok".into(), "c04:trader-tx-lowering-insurance-fund".into(), "c04:close-rejected-negative-equity".into()];
    let alpha = StdAlpha::basic(&T2).acts();
    let seeds = vec![vec![], seed_liquidatable(), seed_two_fundings(), seed_vault_drained(), seed_funding_exceeds_margin(), seed_long_lived_market()];
    let mut exps = vec![];
    match tier {
        Tier::Quick => {
            // depth 4 from the empty history, depth 3 from the seeds (which are 3-11 steps long themselves)
            exps.push(Exp::new("base", cfg_with(true, true, 0), alpha.clone(), vec![vec![]], 4));
            exps.push(Exp::new("base", cfg_with(true, true, 0), alpha.clone(), seeds[1..].to_vec(), 3));
            exps.push(Exp::new("base", cfg_with(false, false, 0), alpha.clone(), seeds.clone(), 3));
            let mut c = cfg_with(true, true, 250_000);
            c.fluct = 50_000;
            c.imr = 100_000;
            exps.push(Exp { setup: None, name: "partial-close".into(), cfg: c, traders: T2.to_vec(), seeds: vec![vec![]], alpha: Alpha::Dyn(alpha_c15), depth: 4, init_mon: Value::Null, raw: false });
        }
        Tier::Thorough => {
            for cw20 in [true, false] {
                for fees in [false, true] {
                    exps.push(Exp::new("base", cfg_with(cw20, fees, 0), alpha.clone(), seeds.clone(), 4));
                }
            }
            // partial-close path: fluctuation limit on, partial ratio 25%, trades sized around the band edge
            for cw20 in [true, false] {
                let mut c = cfg_with(cw20, true, 250_000);
                c.fluct = 50_000;
                c.imr = 100_000;
                exps.push(Exp { setup: None, name: "partial-close".into(), cfg: c, traders: T2.to_vec(), seeds: vec![vec![]], alpha: Alpha::Dyn(alpha_c15), depth: 6, init_mon: Value::Null, raw: false });
            }
        }
    }
    push_sweep(&mut exps, tier.pick(2, 3));
    push_dust(&mut exps, true, tier.pick(3, 4));
    if tier == Tier::Thorough {
        push_dust(&mut exps, false, 4);
    }
    push_two_vamms(&mut exps, tier.pick(3, 4));
    push_whale(&mut exps, tier.pick(2, 3));
    push_partial_close_cheap(&mut exps, tier.pick(4, 5));
    push_cfgchange(&mut exps, tier.pick(3, 4));
    push_allowance(&mut exps, tier.pick(3, 4));
    push_dec9(&mut exps, tier.pick(1, 3), false);
    run_exps(&mut run, step_c04, exps, |_| {});
    run.finish()
}

// ------------------------------------------------------------------------------------------ C05
fn step_c05(m: &EngModel, w: &mut World, s: &EngSt, a: &Act, out: &mut StepOut) -> Option<EngSt> {
    let so = m.observe_step(w, s, a, out);
    let book = book_from_mon(&s.mon);
    let nb = book_update(&book, w, &so, out, "C05");
    oracle_c05(w, &so, out, &book, &nb);
    Some(EngSt { snap: so.post_snap.clone(), mon: book_to_mon(&nb) })
}

fn alpha_c05(w: &mut World, s: &EngSt) -> Vec<Act> {
    w.restore(&s.snap);
    let imr = w.live_cfg(0).imr;
    let (d, k) = (w.d, w.cfg.k());
    let max_lev = d * d / imr; // 1/initial ratio
    let mut acts = vec![];
    for t in T2 {
        for buy in [true, false] {
            for (m, l) in [
                (60 * d, max_lev),
                (7_000_003 * k, 2_500_000 * k),
                (20 * d, max_lev + 1),
                (20 * d, d - 1),
                (1, d),
            ] {
                acts.push(Act::Open { t: t.into(), v: 0, buy, margin: m, lev: l, limit: 0 });
            }
        }
        acts.push(Act::close(t));
        acts.push(Act::Dep { t: t.into(), v: 0, amt: 5 * d + 1 });
        // native collateral: the same deposit with one unit more / one unit less attached than the amount
        if w.token.is_none() {
            let dep = Act::Dep { t: t.into(), v: 0, amt: 5 * d + 1 };
            acts.push(Act::Funded { a: Box::new(dep.clone()), funds: 5 * d + 2 });
            acts.push(Act::Funded { a: Box::new(dep), funds: 5 * d });
        }
        let to = observe_trader(w, 0, t);
        if let Some(p) = &to.pos {
            let vo = observe(w, &[]).vamms.remove(0);
            let mut amts = vec![1u128, p.margin.u128(), p.margin.u128() + 1];
            if let Some(fc) = ref_free_collateral(&to, &vo, imr) {
                if fc > 0 {
                    amts.push(fc as u128);
                    amts.push(fc as u128 + 1);
                    amts.push(fc as u128 + 2);
                    // beyond free collateral by the funding the position is owed / owes
                    let owed = owed_of(p, vo.cum).unsigned_abs();
                    if owed > 2 {
                        amts.push(fc as u128 + owed / 2);
                        amts.push(fc as u128 + owed);
                    }
                }
            }
            amts.sort();
            amts.dedup();
            for a in amts {
                if a > 0 {
                    acts.push(Act::Wd { t: t.into(), v: 0, amt: a });
                }
            }
        } else {
            acts.push(Act::Wd { t: t.into(), v: 0, amt: 3 * d });
        }
    }
    acts.push(Act::fund());
    for b in [15, 1200, 3900] {
        acts.push(Act::blk(b));
    }
    acts.push(Act::Px { price: 8 * d });
    // the owner tightens / relaxes the initial margin ratio mid-history: the leverage bound of the next order is the
    // one in force (the boundary leverages above are computed from the live configuration)
    let k = w.cfg.k();
    for (imr, mmr) in [(100_000u128, 62_500u128), (200_000, 62_500), (62_500, 62_500)] {
        acts.push(Act::EngConfig { by: "owner".into(), imr: Some(imr * k), mmr: Some(mmr * k), plr: None, lf: None });
    }
    acts
}

pub fn run_c05(tier: Tier) -> i32 {
    let mut run = Run::new("C05", tier.clone());
    run.rule = "every sequence over a state-dependent alphabet (leverage at, just inside and just outside [1, 1/initial]; withdrawals of 1, free collateral, free collateral+1, margin, margin+1) up to the depth bound; non-trivial = successful open leaving a position, successful withdraw/deposit, rejected out-of-range leverage".into();
    run.nontrivial = vec!["c05:open-ok-with-position".into(), "c05:withdraw-ok".into(), "c05:deposit-ok".into(), "c05:open-rejected-leverage".into(), "c05:withdraw-rejected-bad-debt".into()];
    let mk = |cw20: bool, imr: u128, mmr: u128, fees: bool| {
        let mut c = cfg_with(cw20, fees, 0);
        c.imr = imr;
        c.mmr = mmr;
        c
    };
    let seeds = vec![vec![], seed_funded(), seed_liquidatable()];
    let mut exps = vec![];
    let mut push = |c: Cfg, d: usize| {
        exps.push(Exp { setup: None, name: "leverage/withdraw boundaries".into(), cfg: c, traders: T2.to_vec(), seeds: seeds.clone(), alpha: Alpha::Dyn(alpha_c05), depth: d, init_mon: Value::Null, raw: false });
    };
    match tier {
        Tier::Quick => {
            push(mk(true, 100_000, 62_500, false), 3);
            push(mk(false, 300_000, 62_500, true), 3);
        }
        Tier::Thorough => {
            for cw20 in [true, false] {
                push(mk(cw20, 100_000, 62_500, false), 4);
                push(mk(cw20, 300_000, 62_500, true), 4);
                push(mk(cw20, 50_000, 50_000, true), 3);
            }
        }
    }
    push_sweep(&mut exps, tier.pick(2, 3));
    push_dust(&mut exps, true, tier.pick(3, 4));
    push_two_vamms(&mut exps, tier.pick(3, 4));
    push_cfgchange(&mut exps, tier.pick(3, 4));
    push_dec9(&mut exps, tier.pick(1, 3), true);
    run_exps(&mut run, step_c05, exps, |_| {});
    run.finish()
}

// ------------------------------------------------------------------------------------------ C06 / C07
fn step_c06(m: &EngModel, w: &mut World, s: &EngSt, a: &Act, out: &mut StepOut) -> Option<EngSt> {
    let so = m.observe_step(w, s, a, out);
    oracle_c06_c07(w, &so, out, true, false);
    next(&so)
}
fn step_c07(m: &EngModel, w: &mut World, s: &EngSt, a: &Act, out: &mut StepOut) -> Option<EngSt> {
    let so = m.observe_step(w, s, a, out);
    oracle_c06_c07(w, &so, out, false, true);
    // "the insurance fund holds enough to cover any shortfall", taken literally: the amount the liquidation draws
    // from the fund is read off a re-execution of the same pre-state with a rich fund; the liquidation is then
    // re-executed from the same pre-state with the fund holding exactly that amount, and must succeed.
    if matches!(a, Act::Liq { .. }) && c07_preconditions_but_fund(w, &so) && !m.traders.iter().any(|t| *t == "stranger") {
        w.restore(&s.snap);
        w.top_up_ifund();
        let o_rich = apply(w, a);
        out.executions += 1;
        if o_rich.ok {
            let (ifa, eng) = (w.ifund.to_string(), w.engine.to_string());
            let needed: u128 = crate::obs::transfers(w, false).iter().filter(|x| x.from == ifa && x.to == eng).map(|x| x.amt).sum();
            // full liquidation: the shortfall by reference = bad debt not yet prepaid (what the position lost beyond its
            // margin, plus the part of the liquidator's fee its margin cannot pay) + what the vault, after that, still
            // lacks to pay the liquidator. A liquidation that asks the fund for more than this fails a fund that holds
            // exactly the shortfall.
            let mut needed = needed;
            if let Act::Liq { t, v, .. } = a {
                if w.pos(*v, t).is_none() {
                    let p0 = so.pre_t(*v, t);
                    if let (Some(pp), true) = (&p0.pos, p0.out_spot >= 0) {
                        let cfg = w.live_cfg(*v);
                        let fee = p0.out_spot * cfg.liq_fee as i128 / di() / 2;
                        let rm = pp.margin.u128() as i128 + pnl_of(pp, p0.out_spot) - owed_of(pp, so.pre.vamms[*v].cum);
                        let bad = (fee - rm).max(0).min(fee + (-rm).max(0));
                        let prepaid = so.pre.prepaid_bad_debt as i128;
                        let delta = (bad - prepaid).max(0);
                        let vault = so.pre.balances[&eng] as i128;
                        // what is left of the margin after the fee goes to the fund: under a gross reading of "shortfall" the
                        // vault must be able to send it too (it comes straight back to the fund); the larger of the two
                        // readings is used, so that either way the fund "holds enough"
                        let rem_to_fund = (rm - fee).max(0);
                        let need_ref = (delta + (fee + rem_to_fund - vault - delta).max(0)) as u128;
                        if need_ref < needed {
                            out.tag("c07:exact-fund-twin-reference-below-measured");
                            needed = need_ref;
                        } else if need_ref == needed {
                            out.tag("c07:exact-fund-twin-reference-equals-measured");
                        } else {
                            out.tag("c07:exact-fund-twin-reference-above-measured");
                        }
                    }
                }
            }
            w.restore(&s.snap);
            if w.set_ifund_balance(needed) {
                let o_exact = apply(w, a);
                out.executions += 1;
                out.tag(if needed > 0 { "c07:exact-fund-twin-with-shortfall" } else { "c07:exact-fund-twin-no-shortfall" });
                if !o_exact.ok {
                    out.viol(
                        format!("C07:liquidation-refused-though-fund-covers-shortfall:{}", err_class(&o_exact.err)),
                        format!(
                            "{:?}: with the insurance fund holding exactly the shortfall {} it failed: {}",
                            a, needed, o_exact.err
                        ),
                    );
                }
            }
        }
        w.restore(&so.post_snap);
    }
    next(&so)
}

fn liq_alpha(rel: bool) -> Vec<Act> {
    let mut al = StdAlpha::basic(&T2);
    al.liquidators = vec!["liq", "bob"];
    al.self_liq = true;
    al.sizes = vec![SIZE_M, SIZE_L];
    al.prices = vec![];
    al.blocks = vec![15, 1200];
    al.funding = false;
    al.deposit = None;
    al.withdraw = Some(3 * D);
    // a quote limit the liquidation satisfies: 1 when the closing trade receives quote (long), huge when it pays (short)
    al.liq_limits = vec![0, 1, 1_000_000 * D];
    if rel {
        // oracle on either side of the 10% spread limit
        al.rel_prices = vec![(1, 1), (10, 11), (1000, 1101), (10, 9), (1000, 899)];
    } else {
        al.rel_prices = vec![(1, 1), (10, 11)];
    }
    al.acts()
}

/// a liquidatable position reached with moves of at most ~4.6% per block (valid under a 5% price band)
fn seed_band_liquidatable() -> Vec<Act> {
    vec![
        Act::open("alice", true, 2 * D, 10 * D),
        Act::blk(15),
        Act::open("bob", false, 2_400_000, 10 * D),
        Act::blk(15),
        Act::open("bob", false, 2_300_000, 10 * D),
        Act::blk(1200),
        px_at_spot(),
    ]
}

/// alice long 25x10 owes more funding than her margin (four settlements against an oracle at 1.0) and
/// is in profit on price after bob's buy: under-margined only because of funding
fn seed_funding_exceeds_margin() -> Vec<Act> {
    let mut v = vec![Act::open("alice", true, 25 * D, 10 * D), Act::Px { price: D }];
    for _ in 0..4 {
        v.push(Act::blk(3900));
        v.push(Act::fund());
    }
    v.push(Act::open("bob", true, 60 * D, 1 * D));
    v.push(Act::blk(1200));
    v
}

fn liq_seeds() -> Vec<Vec<Act>> {
    vec![
        vec![],
        seed_liquidatable(),
        seed_liquidatable_mirror(),
        seed_slightly_under(),
        seed_slightly_under_mirror(),
    ]
}

/// liq_seeds plus slightly under-margined positions that have been credited funding they have not collected
fn liq_seeds_f() -> Vec<Vec<Act>> {
    let mut v = liq_seeds();
    v.push(seed_funding_receiver_slightly_under(true));
    v.push(seed_funding_receiver_slightly_under(false));
    v
}

/// liq_alpha plus, for every trader holding a position, oracle prices at which the oracle-priced
/// margin ratio (funding owed included) sits just below / just above maintenance
fn alpha_c06(w: &mut World, s: &EngSt) -> Vec<Act> {
    w.restore(&s.snap);
    let mut acts = liq_alpha(true);
    acts.push(Act::EngConfig { by: "owner".into(), imr: None, mmr: None, plr: Some(D + 50_000), lf: None });
    acts.push(Act::EngConfig { by: "owner".into(), imr: None, mmr: None, plr: None, lf: Some(D + 50_000) });
    let k = w.cfg.k();
    let mut acts: Vec<Act> = acts.iter().map(|a| a.scaled(k)).collect();
    #[allow(non_snake_case)]
    let DI = di();
    let mmr = w.live_cfg(0).mmr as i128;
    let vo = observe(w, &[]).vamms.remove(0);
    for t in T2 {
        let to = observe_trader(w, 0, t);
        if let Some(p) = &to.pos {
            if p.size.is_zero() {
                continue;
            }
            let (m, n, sz) = (p.margin.u128() as i128, p.notional.u128() as i128, p.size.value.u128() as i128);
            let owed = owed_of(p, vo.cum);
            for dr in [-2000i128, -300, 300, 2000] {
                let r = mmr + dr * k as i128;
                // position value N at which the oracle ratio equals r
                let nn = if size_of(p) > 0 {
                    let num = (n + owed - m) * DI;
                    if num <= 0 || DI - r <= 0 { continue; }
                    num / (DI - r)
                } else {
                    let num = (m + n - owed) * DI;
                    if num <= 0 { continue; }
                    num / (r + DI)
                };
                let price = nn * DI / sz;
                if price > 0 {
                    acts.push(Act::Px { price: price as u128 });
                }
            }
        }
    }
    acts
}

pub fn run_c06(tier: Tier) -> i32 {
    let mut run = Run::new("C06", tier.clone());
    run.rule = "every sequence over the alphabet (liquidation by a third party, by another trader and by the owner; oracle moves on both sides of the 10% spread limit) up to the depth bound from seeds with healthy, slightly and deeply under-margined positions; non-trivial = a Liquidate that succeeded".into();
    run.nontrivial = vec!["c06:full-liquidation".into(), "c06:partial-liquidation".into()];
    let mk = |cw20: bool, mmr: u128, lf: u128, plr: u128| {
        let mut c = cfg_with(cw20, false, plr);
        c.imr = 100_000;
        c.mmr = mmr;
        c.liq_fee = lf;
        c
    };
    let mut exps = vec![];
    let mut seeds = liq_seeds();
    // under-margined positions with funding pending in either direction
    // alice is owed funding (long, oracle above the vAMM TWAP), then the price falls ~15%
    seeds.push(vec![
        Act::open("alice", true, 25 * D, 10 * D),
        Act::Px { price: 18 * D },
        Act::blk(3900),
        Act::fund(),
        Act::open("carol", false, 50 * D, 2 * D),
        Act::blk(1200),
    ]);
    // alice is owed funding (short, oracle below the vAMM TWAP), then the price rises ~15%
    seeds.push(vec![
        Act::open("alice", false, 20 * D, 10 * D),
        Act::Px { price: 6 * D },
        Act::blk(3900),
        Act::fund(),
        Act::open("carol", true, 35 * D, 2 * D),
        Act::blk(1200),
    ]);
    seeds.push(seed_funding_receiver_slightly_under(true));
    seeds.push(seed_funding_receiver_slightly_under(false));
    let mut push = |c: Cfg, d: usize| {
        exps.push(Exp { setup: None, name: "liq".into(), cfg: c, traders: T3.to_vec(), seeds: seeds.clone(), alpha: Alpha::Dyn(alpha_c06), depth: d, init_mon: Value::Null, raw: false });
    };
    match tier {
        Tier::Quick => {
            push(mk(true, 62_500, 25_000, 250_000), 3);
            push(mk(false, 50_000, 50_000, 0), 3);
        }
        Tier::Thorough => {
            for mmr in [50_000, 62_500] {
                for lf in [0, 25_000, 50_000] {
                    for plr in [0, 250_000, D] {
                        push(mk(true, mmr, lf, plr), 3);
                    }
                }
            }
            push(mk(false, 62_500, 25_000, 250_000), 4);
            push(mk(true, 62_500, 25_000, 250_000), 4);
        }
    }
    // a busy market: 110 trading blocks inside the 15-minute window; liquidations right after it
    {
        let alpha = vec![Act::liq("liq", "alice"), Act::liq("liq", "bob"), Act::liq("liq", "carol"), Act::blk(15), Act::blk(1200)];
        let mut e = Exp::new("liq, busy market", mk(true, 62_500, 25_000, 250_000), alpha.clone(), vec![seed_busy_market()], tier.pick(1, 2));
        e.traders = T3.to_vec();
        exps.push(e);
        let mut e = Exp::new("liq, busy market", mk(false, 50_000, 50_000, 0), alpha, vec![seed_busy_market()], tier.pick(1, 2));
        e.traders = T3.to_vec();
        exps.push(e);
    }
    push_sweep(&mut exps, tier.pick(2, 3));
    push_dust(&mut exps, true, tier.pick(3, 4));
    push_two_vamms(&mut exps, tier.pick(3, 4));
    push_whale(&mut exps, tier.pick(2, 3));
    push_cfgchange(&mut exps, tier.pick(3, 4));
    push_dec9(&mut exps, tier.pick(1, 3), true);
    run_exps(&mut run, step_c06, exps, |_| {});
    run.finish()
}

/// liq_alpha plus, computed from the state: a margin top-up that brings an under-margined position's ratio back to a
/// third of maintenance (positive, still liquidatable, no bad debt - whatever the price has done to it), and risk
/// caps set just above / exactly at the current usage (open interest + 50 units, + 0; holding cap of one unit). No
/// setting of the caps is among the stated preconditions of a liquidation.
fn alpha_c07_topups_caps(w: &mut World, s: &EngSt) -> Vec<Act> {
    w.restore(&s.snap);
    let k = w.cfg.k();
    let mut acts: Vec<Act> = liq_alpha(false).iter().map(|a| a.scaled(k)).collect();
    let mmr = w.live_cfg(0).mmr as i128;
    let ob = observe(w, &T2);
    let vo = &ob.vamms[0];
    for t in T2 {
        let to = &ob.traders[&(0, t.to_string())];
        if let Some(p) = &to.pos {
            if p.size.is_zero() || to.out_spot <= 0 {
                continue;
            }
            let equity = p.margin.u128() as i128 + pnl_of(p, to.out_spot) - owed_of(p, vo.cum);
            let target = to.out_spot * (mmr / 3) / di();
            if equity < target {
                acts.push(Act::Dep { t: t.to_string(), v: 0, amt: (target - equity) as u128 });
            }
        }
    }
    let oi = ob.oi_notional;
    acts.push(Act::VammCaps { by: "owner".into(), v: 0, oi_cap: Some(oi + 50 * w.d), holding_cap: None });
    acts.push(Act::VammCaps { by: "owner".into(), v: 0, oi_cap: Some(oi.max(1)), holding_cap: None });
    acts.push(Act::VammCaps { by: "owner".into(), v: 0, oi_cap: None, holding_cap: Some(w.d) });
    // nor is the engine's pause switch
    acts.push(Act::SetPause { by: "owner".into(), pause: true });
    acts.push(Act::SetPause { by: "owner".into(), pause: false });
    acts
}

pub fn run_c07(tier: Tier) -> i32 {
    let mut run = Run::new("C07", tier.clone());
    run.rule = "every sequence over the alphabet up to the depth bound from seeds with under-margined positions (incl. deeply negative equity and a drained vault); in every reached state every Liquidate(by, trader) of the alphabet is attempted; non-trivial = an attempt on a position whose reference ratio is below maintenance".into();
    run.nontrivial = vec!["c07:liquidation-attempts-on-undermargined".into()];
    run.assumptions.push("the price-band precondition is evaluated by the harness from the vAMM's raw reserve snapshots (previous block's closing price x (1 +- limit)); most worlds use limit 0, one uses 5%".into());
    let mk = |cw20: bool, plr: u128, real: bool| {
        let mut c = cfg_with(cw20, false, plr);
        c.real_feed = real;
        c
    };
    let mut seeds = liq_seeds();
    seeds.push(seed_funding_exceeds_margin());
    seeds.push(seed_same_block_cascade());
    seeds.push(seed_vault_drained());
    seeds.push(seed_vault_drained_shorts());
    seeds.push(vec![Act::blk(15), Act::open("alice", true, SIZE_L.0, SIZE_L.1), Act::open("bob", true, SIZE_L.0, SIZE_L.1)]);
    let alpha = liq_alpha(false);
    let mut exps = vec![];
    match tier {
        Tier::Quick => {
            exps.push(Exp::new("liveness", mk(true, 0, false), alpha.clone(), seeds.clone(), 3));
            exps.push(Exp::new("liveness", mk(false, 250_000, false), alpha.clone(), seeds.clone(), 3));
            exps.push(Exp::new("liveness", mk(true, 0, true), alpha.clone(), seeds.clone(), 2));
            exps.push(Exp::new("liveness in the liquidation band", cfg_liq(true, false, 250_000), alpha.clone(), seeds.clone(), 3));
            exps.push(Exp::new("liveness in the liquidation band", cfg_liq(false, false, D), alpha.clone(), seeds.clone(), 2));
            let mut cb = mk(true, 0, false);
            cb.fluct = 50_000;
            let mut band_alpha = alpha.clone();
            for t in ["alice", "bob"] {
                for buy in [true, false] {
                    band_alpha.push(Act::Open { t: t.into(), v: 0, buy, margin: 2 * D, lev: 10 * D, limit: 0 });
                }
            }
            exps.push(Exp::new("liveness with price band", cb, band_alpha, vec![vec![], seed_band_liquidatable()], 3));
        }
        Tier::Thorough => {
            for cw20 in [true, false] {
                for plr in [0, 250_000, D] {
                    exps.push(Exp::new("liveness", mk(cw20, plr, false), alpha.clone(), seeds.clone(), 3));
                }
            }
            exps.push(Exp::new("liveness", mk(true, 0, true), alpha.clone(), seeds.clone(), 3));
            exps.push(Exp::new("liveness", mk(true, 250_000, true), alpha.clone(), seeds.clone(), 3));
            for cw20 in [true, false] {
                for plr in [250_000, D] {
                    exps.push(Exp::new("liveness in the liquidation band", cfg_liq(cw20, false, plr), alpha.clone(), seeds.clone(), 3));
                }
            }
            for cw20 in [true, false] {
                let mut cb = mk(cw20, 0, false);
                cb.fluct = 50_000;
                let mut band_alpha = alpha.clone();
                for t in ["alice", "bob"] {
                    for buy in [true, false] {
                        band_alpha.push(Act::Open { t: t.into(), v: 0, buy, margin: 2 * D, lev: 10 * D, limit: 0 });
                    }
                }
                exps.push(Exp::new("liveness with price band", cb, band_alpha, vec![vec![], seed_band_liquidatable()], 4));
            }
        }
    }
    // top-ups that make deeply under-water positions slightly under-margined again, and tight risk caps
    for c in tier.pick(vec![mk(true, 0, false), cfg_liq(false, false, 250_000)], vec![mk(true, 0, false), mk(false, 0, false), cfg_liq(true, false, 250_000), cfg_liq(false, false, 250_000), cfg_liq(true, false, D)]) {
        exps.push(Exp { setup: None, name: "liveness after top-ups and under tight caps".into(), cfg: c, traders: T2.to_vec(), seeds: liq_seeds(), alpha: Alpha::Dyn(alpha_c07_topups_caps), depth: 3, init_mon: Value::Null, raw: false });
    }
    // prepaid bad debt in the books, an (almost) empty vault and a deeply under-water position whose loss a third
    // party's trade has reduced by a family of amounts: the bad debt a liquidation realises is then smaller than,
    // about equal to, or larger than what was prepaid, and the vault plus the advance may or may not cover the fee
    {
        let mut seeds = vec![];
        for short in [true, false] {
            for m in [500_000u128, 1_000_000, 1_500_000, 2_000_000, 2_500_000, 3_000_000, 3_500_000, 4_000_000, 5_000_000, 7_000_000] {
                seeds.push(vec![
                    Act::blk(15),
                    Act::open("alice", !short, 20 * D, 10 * D),
                    Act::open("bob", !short, 20 * D, 10 * D),
                    Act::blk(15),
                    Act::close("alice"),
                    Act::open("carol", !short, m, 10 * D),
                    Act::blk(1200),
                    px_at_spot(),
                ]);
            }
        }
        let alpha = vec![Act::liq("liq", "bob"), Act::liq("liq", "carol"), Act::liq("alice", "bob"), Act::blk(15)];
        for cw20 in tier.pick(vec![true], vec![true, false]) {
            let mut e = Exp::new("prepaid bad debt, family of third-party trades", mk(cw20, 0, false), alpha.clone(), seeds.clone(), tier.pick(1, 2));
            e.traders = T3.to_vec();
            exps.push(e);
        }
    }
    push_sweep(&mut exps, tier.pick(2, 3));
    push_dust(&mut exps, true, tier.pick(3, 4));
    push_two_vamms(&mut exps, tier.pick(3, 4));
    push_whale(&mut exps, tier.pick(2, 3));
    push_cfgchange(&mut exps, tier.pick(3, 4));
    push_dec9(&mut exps, tier.pick(1, 3), false);
    run_exps(&mut run, step_c07, exps, |_| {});
    run.finish()
}

// ------------------------------------------------------------------------------------------ C08
fn step_c08(m: &EngModel, w: &mut World, s: &EngSt, a: &Act, out: &mut StepOut) -> Option<EngSt> {
    let so = m.observe_step(w, s, a, out);
    oracle_residue(w, &so, out);
    if a.is_engine_tx() {
        let n = so.outcome.dispatches;
        if so.outcome.ok {
            out.tag("c08:fault-free-ok-engine-tx");
            out.tag(format!("c08:message-tree-size:{:02}", n));
        }
        for i in 0..n {
            w.restore(&s.snap);
            let o = apply_fault(w, a, Some(i));
            out.executions += 1;
            let injected = w.tap.log.borrow().iter().any(|d| d.injected);
            if !injected {
                continue; // the faulted run took a shorter path (e.g. different native funds candidate)
            }
            out.tag("c08:faulted-executions");
            let what = w
                .tap
                .log
                .borrow()
                .iter()
                .find(|d| d.injected)
                .map(|d| {
                    let k = d.msg.as_object().and_then(|o| o.keys().next().cloned()).unwrap_or_default();
                    format!("{}", k)
                })
                .unwrap_or_default();
            if o.ok {
                out.viol(
                    format!("C08:fault-swallowed:{}:{}", a.kind(), what),
                    format!("{:?} returned Ok although dispatch {} ({}) was forced to fail", a, i, what),
                );
            }
            if w.store.0.borrow().clone() != s.snap.kv {
                out.viol(
                    format!("C08:fault-left-state:{}:{}", a.kind(), what),
                    format!("{:?} with dispatch {} ({}) failing left a different store (ok={})", a, i, what, o.ok),
                );
            }
            let left = w.in_flight();
            if !left.is_empty() {
                out.viol(
                    format!("C08:in-flight-residue-after-fault:{}", a.kind()),
                    format!("{:?} with dispatch {} failing left {:?}", a, i, left),
                );
            }
        }
        // natural failure that must propagate: an insurance-fund withdrawal the fund cannot cover. The amount the
        // operation needs from the fund is read off the rich-fund twin of the same pre-state (the fund topped up
        // from a wallet that never trades); if that exceeds what the fund really holds, the real run must fail.
        let if_bal = so.pre.balances.get(w.ifund.as_str()).copied().unwrap_or(0);
        if if_bal < 100 * w.d && !m.traders.iter().any(|t| *t == "stranger") {
            w.restore(&s.snap);
            let moved = w.top_up_ifund();
            if moved > 0 {
                let o2 = apply(w, a);
                out.executions += 1;
                let ifa = w.ifund.to_string();
                let eng = w.engine.to_string();
                let needed: u128 = crate::obs::transfers(w, false).iter().filter(|x| x.from == ifa && x.to == eng).map(|x| x.amt).sum();
                if o2.ok && needed > 0 {
                    out.tag("c08:rich-fund-twin-withdrew");
                }
                if o2.ok && needed > if_bal && !so.outcome.ok {
                    out.tag("c08:insurance-shortfall-propagated");
                }
                if o2.ok && needed > if_bal && so.outcome.ok {
                    out.viol(
                        format!("C08:insurance-shortfall-not-propagated:{}", a.kind()),
                        format!("{:?} returned Ok although it needs {} from the insurance fund (rich-fund twin) and the fund holds {}", a, needed, if_bal),
                    );
                }
            }
        }
        w.restore(&so.post_snap);
    }
    next(&so)
}

pub fn run_c08(tier: Tier) -> i32 {
    let mut run = Run::new("C08", tier.clone());
    run.rule = "pre-states: every state of a BFS to the depth bound; for every pre-state and every engine operation of the alphabet the fault-free run records n dispatched messages, then the operation is re-executed n times from the same pre-state with dispatch i forced to fail; natural failures (empty wallet, closed vAMM, paused engine, slippage limit) are alphabet actions; non-trivial = a fault-injected re-execution".into();
    run.nontrivial = vec!["c08:faulted-executions".into(), "c08:insurance-shortfall-propagated".into()];
    let mut al = StdAlpha::basic(&T2);
    al.sizes = vec![SIZE_M, SIZE_L];
    al.prices = vec![8 * D];
    al.blocks = vec![15, 3900];
    let mut alpha = al.acts();
    // natural failures
    alpha.push(Act::Open { t: "owner".into(), v: 0, buy: true, margin: 5 * D, lev: 2 * D, limit: 0 }); // empty wallet
    alpha.push(Act::Open { t: "alice".into(), v: 0, buy: true, margin: 5 * D, lev: 2 * D, limit: 1_000_000 * D }); // slippage
    alpha.push(Act::SetOpen { by: "owner".into(), v: 0, open: false });
    alpha.push(Act::SetOpen { by: "owner".into(), v: 0, open: true });
    alpha.push(Act::SetPause { by: "owner".into(), pause: true });
    alpha.push(Act::SetPause { by: "owner".into(), pause: false });
    let seeds = vec![vec![], seed_liquidatable(), seed_funded(), seed_vault_drained()];
    let mut exps = vec![];
    match tier {
        Tier::Quick => {
            exps.push(Exp::new("fault sweep", cfg_liq(true, true, 250_000), alpha.clone(), seeds.clone(), 3));
            exps.push(Exp::new("fault sweep", cfg_with(false, true, 0), alpha.clone(), seeds.clone(), 2));
        }
        Tier::Thorough => {
            for cw20 in [true, false] {
                for plr in [0, 250_000] {
                    exps.push(Exp::new("fault sweep", cfg_with(cw20, true, plr), alpha.clone(), seeds.clone(), 3));
                }
            }
            exps.push(Exp::new("fault sweep", cfg_with(true, true, 250_000), alpha.clone(), seeds.clone(), 4));
        }
    }
    // partial-close path: non-zero fluctuation limit, partial ratio 25%, trades sized around the band edge
    {
        let mut c = cfg_with(true, true, 250_000);
        c.fluct = 50_000;
        c.imr = 100_000;
        exps.push(Exp { setup: None, name: "fault sweep partial close".into(), cfg: c, traders: T2.to_vec(), seeds: vec![vec![]], alpha: Alpha::Dyn(alpha_c15), depth: tier.pick(3, 4), init_mon: Value::Null, raw: false });
    }
    // poor / empty insurance fund: withdrawals the fund cannot cover must fail the whole transaction
    for (cw20, iff) in [(true, 0u128), (false, 50_000)] {
        let mut c = cfg_liq(cw20, true, 250_000);
        c.if_funds = iff;
        exps.push(Exp::new("fault sweep poor fund", c, alpha.clone(), vec![seed_funded(), seed_funding_exceeds_margin(), seed_liquidatable()], tier.pick(2, 3)));
    }
    push_sweep(&mut exps, tier.pick(1, 2));
    push_dust(&mut exps, true, tier.pick(3, 4));
    push_two_vamms(&mut exps, tier.pick(3, 4));
    push_cfgchange(&mut exps, tier.pick(3, 4));
    push_allowance(&mut exps, tier.pick(3, 4));
    push_dec9(&mut exps, tier.pick(1, 3), false);
    push_unknown_variants(&mut exps, &mut run);
    run_exps(&mut run, step_c08, exps, |_| {});
    run.finish()
}

// ------------------------------------------------------------------------------------------ C11
fn step_c11(m: &EngModel, w: &mut World, s: &EngSt, a: &Act, out: &mut StepOut) -> Option<EngSt> {
    let so = m.observe_step(w, s, a, out);
    let book = book_from_mon(&s.mon);
    let cps: CpRef = book.iter().map(|(k, r)| (k.clone(), r.cp as i128)).collect();
    oracle_c11(w, &so, out, &cps);
    let nb = book_update(&book, w, &so, out, "C11");
    Some(EngSt { snap: so.post_snap.clone(), mon: book_to_mon(&nb) })
}

/// a long-lived market: 26 funding settlements with a non-zero premium while alice and bob hold positions
fn seed_long_lived_market() -> Vec<Act> {
    let mut v = vec![Act::open("alice", true, 25 * D, 2 * D), Act::open("bob", false, 20 * D, 2 * D), Act::Px { price: 9_900_000 }];
    for _ in 0..26 {
        v.push(Act::blk(3900));
        v.push(Act::fund());
    }
    v
}

pub fn run_c11(tier: Tier) -> i32 {
    let mut run = Run::new("C11", tier.clone());
    run.rule = "every sequence over the alphabet (time steps around the funding time: +15 s, +29 min, +31 min, +59 min 59 s, +60 min, +61 min; oracle prices giving premium <0, =0, >0; PayFunding by anyone; all position operations) up to the depth bound; non-trivial = a settlement that succeeded, or a charging event on a position with funding owed".into();
    run.nontrivial = vec!["c11:settlement-ok".into(), "c11:increase-with-funding-owed".into(), "c11:reduce-with-funding-owed".into(), "c11:reversal-with-funding-owed".into(), "c11:deposit-with-funding-owed".into(), "c11:closeout-by-open-with-funding-owed".into(), "c11:settlement-rejected-early".into()];
    let mut al = StdAlpha::basic(&T2);
    al.blocks = vec![15, 1740, 1860, 3599, 3600, 3660];
    al.liquidators = vec![];
    let mut alpha = al.acts();
    // a block that is not a whole number of seconds after the previous one, just short of the funding time
    alpha.push(Act::Blk { blocks: 1, secs: 3599, ms: 600 });
    let seeds = vec![vec![], seed_funded(), seed_two_fundings(), seed_vault_drained(), seed_funding_exceeds_margin(), seed_long_lived_market()];
    let mut exps = vec![];
    match tier {
        Tier::Quick => {
            exps.push(Exp::new("funding", cfg_with(true, false, 0), alpha.clone(), seeds.clone(), 3));
            exps.push(Exp::new("funding", cfg_with(false, true, 0), alpha.clone(), seeds.clone(), 3));
        }
        Tier::Thorough => {
            for cw20 in [true, false] {
                for fees in [false, true] {
                    exps.push(Exp::new("funding", cfg_with(cw20, fees, 0), alpha.clone(), seeds.clone(), 4));
                }
            }
        }
    }
    // vAMMs instantiated with other funding periods (the period cannot be changed later): one day, and five hours -
    // a period that does not divide a day; time steps around half a period and a period
    for fp in [86_400u64, 18_000] {
        let mut al = StdAlpha::basic(&T2);
        al.sizes = vec![SIZE_M];
        al.blocks = vec![15, fp / 2, fp - 1, fp, fp + fp / 24];
        al.prices = vec![8 * D, 12_500_000];
        al.liquidators = vec![];
        al.deposit = None;
        let mut c = cfg_with(true, false, 0);
        c.funding_period = fp;
        let seeds = vec![
            vec![],
            vec![Act::open("alice", true, SIZE_M.0, SIZE_M.1), Act::open("bob", false, SIZE_S.0, SIZE_S.1), Act::Px { price: 8 * D }, Act::blk(fp + fp / 24)],
        ];
        exps.push(Exp::new("funding, other funding periods", c, al.acts(), seeds, tier.pick(3, 4)));
    }
    push_sweep(&mut exps, tier.pick(2, 3));
    push_dust(&mut exps, true, tier.pick(3, 4));
    push_two_vamms(&mut exps, tier.pick(3, 4));
    push_whale(&mut exps, tier.pick(2, 3));
    push_cfgchange(&mut exps, tier.pick(3, 4));
    push_dec9(&mut exps, tier.pick(1, 3), false);
    run_exps(&mut run, step_c11, exps, |_| {});
    run.finish()
}

// ------------------------------------------------------------------------------------------ C12
fn step_c12(m: &EngModel, w: &mut World, s: &EngSt, a: &Act, out: &mut StepOut) -> Option<EngSt> {
    let so = m.observe_step(w, s, a, out);
    oracle_c12(w, &so, out);
    next(&so)
}

pub fn run_c12(tier: Tier) -> i32 {
    let mut run = Run::new("C12", tier.clone());
    run.rule = "every sequence over the alphabet (notionals incl. one whose fee rounds to zero and non-round ones; reversal with and without remainder) up to the depth bound for several toll/spread settings; non-trivial = a successful open/close/other operation on which the fee transfers were checked".into();
    run.nontrivial = vec!["c12:open-ok".into(), "c12:whole-close-ok".into(), "c12:non-trade-ok".into()];
    let mut al = StdAlpha::basic(&T2);
    al.sizes = vec![SIZE_S, SIZE_M, SIZE_L, (1, D), (33, 3 * D)];
    al.prices = vec![8 * D];
    al.blocks = vec![15, 3900];
    // a position's owner may liquidate it too: still a liquidation, still no trading fee
    al.self_liq = true;
    let alpha = al.acts();
    let mk = |cw20: bool, toll: u128, spread: u128| {
        let mut c = cfg_with(cw20, false, 0);
        c.toll = toll;
        c.spread = spread;
        c
    };
    let seeds = vec![vec![], seed_liquidatable(), seed_funded()];
    let mut exps = vec![];
    match tier {
        Tier::Quick => {
            exps.push(Exp::new("fees", mk(true, 3_000, 7_000), alpha.clone(), seeds.clone(), 3));
            exps.push(Exp::new("fees", mk(false, 3_000, 7_000), alpha.clone(), vec![vec![]], 2));
        }
        Tier::Thorough => {
            for (toll, spread) in [(3_000, 7_000), (0, 7_000), (3_000, 0), (D, 0), (500_000, 500_000)] {
                exps.push(Exp::new("fees", mk(true, toll, spread), alpha.clone(), seeds.clone(), 3));
            }
            exps.push(Exp::new("fees", mk(true, 3_000, 7_000), alpha.clone(), seeds.clone(), 4));
            exps.push(Exp::new("fees", mk(false, 3_000, 7_000), alpha.clone(), seeds.clone(), 4));
        }
    }
    push_sweep(&mut exps, tier.pick(2, 3));
    push_dust(&mut exps, true, tier.pick(3, 4));
    if tier == Tier::Thorough {
        push_dust(&mut exps, false, 4);
    }
    push_two_vamms(&mut exps, tier.pick(3, 4));
    push_whale(&mut exps, tier.pick(2, 3));
    push_partial_close_cheap(&mut exps, tier.pick(4, 5));
    push_cfgchange(&mut exps, tier.pick(3, 4));
    push_allowance(&mut exps, tier.pick(3, 4));
    push_dec9(&mut exps, tier.pick(1, 3), false);
    run_exps(&mut run, step_c12, exps, |_| {});
    run.finish()
}

// ------------------------------------------------------------------------------------------ C16
/// monitor: {h, u: traders whose own successful open/close in this block left a stored position,
/// lq: a liquidation succeeded in this block, lt: traders named by a successful liquidation}
fn step_c16(m: &EngModel, w: &mut World, s: &EngSt, a: &Act, out: &mut StepOut) -> Option<EngSt> {
    let so = m.observe_step(w, s, a, out);
    let mut mon = s.mon.clone();
    let h = so.pre.height;
    if mon["h"].as_u64() != Some(h) {
        mon = json!({"h": h, "u": [], "lq": [], "lt": []});
    }
    // entries are "<vamm index>/<trader>"; lq lists the vAMM indices with a liquidation in this block
    let in_list = |v: &Value, k: &str| v.as_array().map(|a| a.iter().any(|x| x.as_str() == Some(k))).unwrap_or(false);
    let list = |v: &Value| -> Vec<String> { v.as_array().map(|a| a.iter().filter_map(|x| x.as_str().map(|s| s.to_string())).collect()).unwrap_or_default() };
    match a {
        Act::Open { t, v, .. } | Act::Close { t, v, .. } => {
            let k = format!("{}/{}", v, t);
            let lq_here = in_list(&mon["lq"], &v.to_string());
            let restricted = in_list(&mon["u"], &k) && lq_here && so.pre_t(*v, t).pos.is_some();
            let cls = err_class(&so.outcome.err);
            if restricted {
                out.tag("c16:restricted-attempts");
                if so.outcome.ok || !so.store_unchanged() {
                    out.viol(
                        format!("C16:second-action-after-liquidation-accepted:{}", a.kind()),
                        format!("{:?} succeeded in block {} although {} already acted on that vAMM in it and a liquidation happened there (monitor {})", a, h, t, mon),
                    );
                }
            } else if !in_list(&mon["u"], &k) && !in_list(&mon["lt"], &k) {
                out.tag("c16:unrestricted-attempts");
                if !so.outcome.ok && cls == "restriction-mode" {
                    out.viol(
                        format!("C16:untouched-trader-restricted:{}", a.kind()),
                        format!("{:?} rejected with the restriction error in block {} although {} had not acted on that vAMM in it (monitor {})", a, h, t, mon),
                    );
                }
            }
            if so.outcome.ok {
                let has = so.post_t(*v, t).pos.is_some();
                let mut u = list(&mon["u"]);
                u.retain(|x| x != &k);
                if has {
                    u.push(k);
                }
                u.sort();
                mon["u"] = json!(u);
            }
        }
        Act::Liq { t, v, .. } => {
            if so.outcome.ok {
                out.tag("c16:liquidations");
                let k = format!("{}/{}", v, t);
                let mut lq = list(&mon["lq"]);
                if !lq.contains(&v.to_string()) {
                    lq.push(v.to_string());
                    lq.sort();
                }
                mon["lq"] = json!(lq);
                let mut lt = list(&mon["lt"]);
                if !lt.contains(&k) {
                    lt.push(k.clone());
                    lt.sort();
                }
                mon["lt"] = json!(lt);
                if so.post_t(*v, t).pos.is_none() {
                    let mut u = list(&mon["u"]);
                    u.retain(|x| x != &k);
                    mon["u"] = json!(u);
                }
            }
        }
        Act::Blk { .. } => {
            mon = json!({"h": so.post.height, "u": [], "lq": [], "lt": []});
        }
        _ => {}
    }
    Some(EngSt { snap: so.post_snap.clone(), mon })
}

pub fn run_c16(tier: Tier) -> i32 {
    let mut run = Run::new("C16", tier.clone());
    run.rule = "every ordering of opens, closes, liquidations and block boundaries (3 traders + liquidator) up to the depth bound from seeds holding a liquidatable position; monitor (who acted in this block, whether a liquidation happened) is part of the state; non-trivial = an attempt by a restricted trader, or an attempt by an untouched trader in a block with a liquidation".into();
    run.nontrivial = vec!["c16:restricted-attempts".into(), "c16:liquidations".into()];
    let mut al = StdAlpha::basic(&T3);
    al.sizes = vec![SIZE_M];
    al.deposit = None;
    al.withdraw = None;
    al.funding = true;
    al.prices = vec![];
    al.blocks = vec![15, 0]; // incl. a new block within the same second
    let alpha = al.acts();
    let init = json!({"h": 0, "u": [], "lq": [], "lt": []});
    let seeds = vec![with_funding_due(seed_liquidatable()), with_funding_due(seed_liquidatable_mirror()), seed_same_block_cascade(), vec![
        Act::open("alice", true, 25 * D, 10 * D),
        Act::open("carol", true, 25 * D, 10 * D),
        Act::blk(15),
        Act::open("bob", false, 50 * D, 1 * D),
        Act::blk(3900),
        px_at_spot(),
    ]];
    let mut exps = vec![];
    let mut push = |plr: u128, d: usize| {
        let mut e = Exp::new("restriction mode", if plr == 0 { cfg_with(true, false, plr) } else { cfg_liq(true, false, plr) }, alpha.clone(), seeds.clone(), d);
        e.init_mon = init.clone();
        exps.push(e);
    };
    match tier {
        Tier::Quick => {
            push(0, 4);
            push(250_000, 4);
        }
        Tier::Thorough => {
            push(0, 6);
            push(250_000, 6);
        }
    }
    // two vAMMs: liquidatable positions on both, trades and liquidations interleaved across them
    {
        let mut c = cfg_liq(true, false, 250_000);
        c.n_vamms = 2;
        let mut acts = vec![];
        for v in 0..2 {
            for t in ["alice", "carol"] {
                acts.push(Act::Open { t: t.into(), v, buy: true, margin: SIZE_M.0, lev: SIZE_M.1, limit: 0 });
                acts.push(Act::Close { t: t.into(), v, limit: 0 });
            }
            for t in ["alice", "bob"] {
                acts.push(Act::Liq { by: "liq".into(), t: t.into(), v, limit: 0 });
            }
        }
        acts.push(Act::blk(15));
        let seed2 = vec![
            Act::Open { t: "alice".into(), v: 0, buy: true, margin: 25 * D, lev: 10 * D, limit: 0 },
            Act::Open { t: "bob".into(), v: 1, buy: true, margin: 25 * D, lev: 10 * D, limit: 0 },
            Act::blk(15),
            Act::Open { t: "bob".into(), v: 0, buy: false, margin: 50 * D, lev: 1 * D, limit: 0 },
            Act::Open { t: "alice".into(), v: 1, buy: false, margin: 50 * D, lev: 1 * D, limit: 0 },
            Act::blk(1200),
            Act::PxRel { v: 0, num: 1, den: 1 },
        ];
        let mut e = Exp::new("restriction mode, two vAMMs", c, acts, vec![seed2], tier.pick(4, 5));
        e.init_mon = init.clone();
        exps.push(e);
    }
    // breadth over configurations with the restriction alphabet itself (a trade, a liquidation and a second action in
    // one block need three steps): zero liquidation fee, partial ratio 100%, poor fund, fees, price band, 9 decimals
    for c in covering_configs() {
        let mut e = Exp::new("restriction mode, configuration sweep", c, alpha.clone(), vec![with_funding_due(seed_liquidatable()), seed_band_liquidatable(), seed_slightly_under()], tier.pick(3, 4));
        e.init_mon = init.clone();
        exps.push(e);
    }
    if tier == Tier::Thorough {
        push_sweep(&mut exps, 3);
    }
    push_dust(&mut exps, true, tier.pick(3, 4));
    push_cfgchange(&mut exps, tier.pick(3, 4));
    push_dec9(&mut exps, tier.pick(1, 3), false);
    run_exps(&mut run, step_c16, exps, |_| {});
    run.finish()
}

// ------------------------------------------------------------------------------------------ C15
fn isqrt(n: u128) -> u128 {
    if n < 2 {
        return n;
    }
    let mut x = (n as f64).sqrt() as u128;
    while x * x > n {
        x -= 1;
    }
    while (x + 1) * (x + 1) <= n {
        x += 1;
    }
    x
}

/// quote amount whose swap_input moves the spot price by the factor f/1e6 (buy: f>1e6; sell: f<1e6)
fn notional_for_move(q: u128, f: u128) -> u128 {
    // price ~ q^2/k  =>  q' = q * sqrt(f)
    let qn = q * isqrt(f * 1_000_000) / 1_000_000;
    if qn > q {
        qn - q
    } else {
        q - qn
    }
}

fn alpha_c15(w: &mut World, s: &EngSt) -> Vec<Act> {
    w.restore(&s.snap);
    let q = w.vstate(0).quote_asset_reserve.u128();
    // the move factors are computed in parts per million whatever the decimals
    let l = w.live_cfg(0).fluct / w.cfg.k();
    let d = w.d;
    let mut acts = vec![];
    // trade sizes that land just inside and just outside either edge of the band around the previous block's closing
    // price (the monitor's; the current price before the first block step) - from wherever the price has drifted to
    // inside the block, so a trade against the drift can reach the far edge - plus a small one for drift
    let spot = w.spot(0);
    let prev = s.mon["p"].as_u64().map(|x| x as u128).unwrap_or(spot).max(1);
    let to_ppm = |target: u128| -> u128 { target * 1_000_000 / spot.max(1) };
    let (up_in, up_out) = (prev * (1_000_000 + l - l / 50) / 1_000_000, prev * (1_000_000 + l + l / 50) / 1_000_000);
    let (dn_in, dn_out) = (prev * (1_000_000 - l + l / 50) / 1_000_000, prev * (1_000_000 - l - l / 50) / 1_000_000);
    let mut moves_up = vec![1_000_000 + l / 2];
    let mut moves_dn = vec![1_000_000 - l / 2];
    for tgt in [up_in, up_out, dn_in, dn_out] {
        let f = to_ppm(tgt);
        if f > 1_000_000 {
            moves_up.push(f);
        } else if f < 1_000_000 && f > 0 {
            moves_dn.push(f);
        }
    }
    for t in T2 {
        for f in moves_up.iter().copied() {
            let n = notional_for_move(q, f);
            acts.push(Act::Open { t: t.into(), v: 0, buy: true, margin: n / 2 + 1, lev: 2 * d, limit: 0 });
        }
        for f in moves_dn.iter().copied() {
            let n = notional_for_move(q, f);
            acts.push(Act::Open { t: t.into(), v: 0, buy: false, margin: n / 2 + 1, lev: 2 * d, limit: 0 });
        }
        acts.push(Act::close(t));
        // the same close carrying a quote limit that the whole close satisfies (a long receives at least 1; a short
        // pays at most a huge amount): the whole-or-fraction decision must not depend on the limit being there
        acts.push(Act::Close { t: t.into(), v: 0, limit: 1 });
        acts.push(Act::Close { t: t.into(), v: 0, limit: 1_000_000 * d });
    }
    acts.push(Act::blk(15));
    // a new block within the same second as the previous one (block time has sub-second resolution)
    acts.push(Act::blk(0));
    acts
}

/// alpha_c15 plus the permissionless operations anybody can slip between two trades of one block: a funding
/// settlement (due in the seeds) and liquidations
fn alpha_c15_permissionless(w: &mut World, s: &EngSt) -> Vec<Act> {
    let mut acts = alpha_c15(w, s);
    acts.push(Act::fund());
    acts.push(Act::liq("liq", "alice"));
    acts.push(Act::liq("liq", "bob"));
    // the owner tightens / relaxes the limit between two trades of a block: the band in force is the configured one
    let k = w.cfg.k();
    for fl in [30_000u128, 50_000, 80_000] {
        acts.push(Act::VammConfig { by: "owner".into(), v: 0, toll: None, spread: None, fluct: Some(fl * k), twap: None });
    }
    acts
}

/// monitor: {h, p: spot price at the end of the previous block}
fn step_c15(m: &EngModel, w: &mut World, s: &EngSt, a: &Act, out: &mut StepOut) -> Option<EngSt> {
    let d1 = du();
    let so = m.observe_step(w, s, a, out);
    let cfg = &w.live_cfg(0);
    let mut mon = s.mon.clone();
    if mon["p"].is_null() {
        mon = json!({"p": so.pre.vamms[0].spot as u64});
    }
    let p = mon["p"].as_u64().unwrap() as u128;
    let l = cfg.fluct;
    let upper = p * (d1 + l) / d1;
    let lower = p * (d1 - l) / d1;
    let inside = |x: u128| x >= lower && x <= upper;
    let spot0 = so.pre.vamms[0].spot;
    let spot1 = so.post.vamms[0].spot;
    match a {
        Act::Open { t, v, .. } if l > 0 => {
            if so.outcome.ok {
                let has = so.post_t(*v, t).pos.as_ref().map(|p| !p.size.is_zero()).unwrap_or(false);
                if has {
                    out.tag("c15:open-ok-with-position");
                    if !inside(spot1) {
                        out.viol(
                            "C15:open-left-price-outside-band",
                            format!("{:?}: spot {} -> {} outside [{}, {}] (previous block price {})", a, spot0, spot1, lower, upper, p),
                        );
                    }
                    if !inside(spot0) {
                        out.viol(
                            "C15:open-accepted-while-outside-band",
                            format!("{:?} accepted with spot {} already outside [{}, {}]", a, spot0, lower, upper),
                        );
                    }
                }
            } else if err_class(&so.outcome.err) == "swap-failure" {
                out.tag("c15:open-refused-by-vamm");
            }
        }
        Act::Close { t, v, .. } if l > 0 && cfg.plr < d1 => {
            if so.outcome.ok {
                let p0 = so.pre_t(*v, t).pos.clone().unwrap();
                match &so.post_t(*v, t).pos {
                    None => {
                        out.tag("c15:whole-close");
                        if !inside(spot1) {
                            let long = size_of(&p0) > 0;
                            out.viol(
                                format!("C15:whole-close-left-price-outside-band:{}", if long { "long" } else { "short" }),
                                format!("{:?}: whole position {} closed, spot {} -> {} outside [{}, {}] (previous block price {})", a, p0.size, spot0, spot1, lower, upper, p),
                            );
                        }
                    }
                    Some(p1) => {
                        out.tag("c15:partial-close");
                        let exp = p0.size.value.u128() * cfg.plr / d1;
                        let dec = p0.size.value.u128() as i128 - p1.size.value.u128() as i128;
                        let vs = &so.pre.vamms[0].state;
                        let tol = 2 + (vs.base_asset_reserve.u128() / vs.quote_asset_reserve.u128().max(1)) as i128;
                        if (dec - exp as i128).abs() > tol || (size_of(&p0) > 0) != (size_of(p1) > 0) {
                            out.viol(
                                "C15:partial-close-fraction",
                                format!("{:?}: size {} -> {} expected decrease {} (+-{})", a, p0.size, p1.size, exp, tol),
                            );
                        }
                        // the whole close must indeed have left the band (else the whole position should have been closed)
                        let dir = if size_of(&p0) > 0 { margined_perp::margined_vamm::Direction::AddToAmm } else { margined_perp::margined_vamm::Direction::RemoveFromAmm };
                        let post = w.snapshot();
                        *w.store.0.borrow_mut() = so.pre_snap.kv.clone();
                        let qa = w.out_amount(0, dir.clone(), p0.size.value.u128());
                        *w.store.0.borrow_mut() = post.kv;
                        if let Ok(qa) = qa {
                            let (q0, b0) = (vs.quote_asset_reserve.u128(), vs.base_asset_reserve.u128());
                            let (q1, b1) = if size_of(&p0) > 0 { (q0 - qa, b0 + p0.size.value.u128()) } else { (q0 + qa, b0 - p0.size.value.u128()) };
                            let price_after = q1 * d1 / b1;
                            if inside(price_after) && inside(spot0) {
                                out.viol(
                                    "C15:partial-close-though-whole-close-stays-inside",
                                    format!("{:?}: whole close would end at {} inside [{}, {}] yet only a fraction was closed", a, price_after, lower, upper),
                                );
                            }
                        }
                    }
                }
            }
        }
        Act::Blk { .. } => {
            mon = json!({"p": spot0 as u64});
        }
        _ => {}
    }
    Some(EngSt { snap: so.post_snap.clone(), mon })
}

pub fn run_c15(tier: Tier) -> i32 {
    let mut run = Run::new("C15", tier.clone());
    run.rule = "every sequence over a state-dependent alphabet (trades sized to move the price by limit*0.98, limit*1.02 and limit/2 in both directions, closes, next block) up to the depth bound; the previous block's closing price is a monitor in the state; non-trivial = successful open leaving a position, whole or partial close under a non-zero limit".into();
    run.nontrivial = vec!["c15:open-ok-with-position".into(), "c15:whole-close".into(), "c15:partial-close".into(), "c15:open-refused-by-vamm".into()];
    let mk = |fl: u128, plr: u128| {
        let mut c = cfg_with(true, false, plr);
        c.fluct = fl;
        c.imr = 100_000;
        c.mmr = 50_000;
        c
    };
    let mut exps = vec![];
    let mut push = |c: Cfg, d: usize| {
        exps.push(Exp { setup: None, name: "price band".into(), cfg: c, traders: T2.to_vec(), seeds: vec![vec![]], alpha: Alpha::Dyn(alpha_c15), depth: d, init_mon: Value::Null, raw: false });
    };
    match tier {
        Tier::Quick => {
            push(mk(50_000, 250_000), 5);
            push(mk(20_000, D), 4);
        }
        Tier::Thorough => {
            push(mk(50_000, 250_000), 6);
            push(mk(20_000, 250_000), 5);
            push(mk(50_000, D), 5);
        }
    }
    // funding settlements and liquidations between the trades of one block (funding is due in the seeds)
    {
        let d = D;
        let seeds = vec![
            vec![Act::blk(3900)],
            vec![Act::Open { t: "alice".into(), v: 0, buy: true, margin: 10 * d, lev: 2 * d, limit: 0 }, Act::blk(3900)],
            vec![Act::Open { t: "alice".into(), v: 0, buy: false, margin: 10 * d, lev: 2 * d, limit: 0 }, Act::Open { t: "bob".into(), v: 0, buy: true, margin: 5 * d, lev: 2 * d, limit: 0 }, Act::blk(3900)],
        ];
        exps.push(Exp { setup: None, name: "price band, funding settlement and liquidations inside the block".into(), cfg: mk(50_000, 250_000), traders: T2.to_vec(), seeds, alpha: Alpha::Dyn(alpha_c15_permissionless), depth: tier.pick(3, 4), init_mon: Value::Null, raw: false });
    }
    push_dec9(&mut exps, tier.pick(1, 2), true);
    run_exps(&mut run, step_c15, exps, |_| {});
    run.finish()
}

// ------------------------------------------------------------------------------------------ C20 (caps part)
pub fn step_c20(m: &EngModel, w: &mut World, s: &EngSt, a: &Act, out: &mut StepOut) -> Option<EngSt> {
    let so = m.observe_step(w, s, a, out);
    if let Act::Open { t, v, .. } = a {
        if so.outcome.ok {
            let vc = w.vcfg(*v);
            let wl: bool = w.q(&w.engine, &margined_perp::margined_engine::QueryMsg::IsWhitelisted { address: t.clone() }).unwrap_or(false);
            let p0 = so.pre_t(*v, t).pos.as_ref().map(|p| p.size.value.u128()).unwrap_or(0);
            let p1 = so.post_t(*v, t).pos.as_ref().map(|p| p.size.value.u128()).unwrap_or(0);
            let s0 = so.pre_t(*v, t).pos.as_ref().map(size_of).unwrap_or(0);
            let s1 = so.post_t(*v, t).pos.as_ref().map(size_of).unwrap_or(0);
            let increasing = p1 > p0 || (s0 != 0 && s1 != 0 && (s0 > 0) != (s1 > 0));
            if increasing {
                let (oc, hc) = (vc.open_interest_notional_cap.u128(), vc.base_asset_holding_cap.u128());
                if wl {
                    out.tag("c20:whitelisted-increase-ok");
                } else {
                    if oc > 0 || hc > 0 {
                        out.tag("c20:capped-increase-ok");
                    }
                    if oc > 0 && so.post.oi_notional > oc && so.post.oi_notional > so.pre.oi_notional {
                        out.viol("C20:open-interest-above-cap", format!("{:?}: open interest {} > cap {}", a, so.post.oi_notional, oc));
                    }
                    if hc > 0 && p1 > hc {
                        out.viol("C20:holding-above-cap", format!("{:?}: |size| {} > cap {}", a, p1, hc));
                    }
                }
            }
        } else {
            let cls = err_class(&so.outcome.err);
            if cls == "swap-failure" || cls == "oi-cap" || cls == "holding-cap" {
                let wl: bool = w.q(&w.engine, &margined_perp::margined_engine::QueryMsg::IsWhitelisted { address: t.clone() }).unwrap_or(false);
                if so.outcome.err.contains("cap") {
                    out.tag("c20:rejected-for-cap");
                    if wl {
                        out.viol("C20:whitelisted-trader-capped", format!("{:?} rejected: {}", a, so.outcome.err));
                    }
                }
            }
        }
    }
    next(&so)
}

// ------------------------------------------------------------------------------------------ C17 (engine level)
fn with_limit(a: &Act, l: u128) -> Act {
    match a.clone() {
        Act::Open { t, v, buy, margin, lev, .. } => Act::Open { t, v, buy, margin, lev, limit: l },
        Act::Close { t, v, .. } => Act::Close { t, v, limit: l },
        Act::Liq { by, t, v, .. } => Act::Liq { by, t, v, limit: l },
        x => x,
    }
}

fn step_c17_eng(m: &EngModel, w: &mut World, s: &EngSt, a: &Act, out: &mut StepOut) -> Option<EngSt> {
    let so = m.observe_step(w, s, a, out);
    // which operations carry the caller's limit unchanged
    let eligible = match a {
        Act::Open { t, v, .. } => {
            // opens, increases, reduces - not reversals (two swaps)
            so.outcome.ok && so.swaps.len() == 1 && so.post_t(*v, t).pos.as_ref().map(|p| !p.size.is_zero()).unwrap_or(false)
        }
        Act::Close { t, v, .. } => so.outcome.ok && so.post_t(*v, t).pos.is_none() && so.swaps.len() == 1,
        Act::Liq { t, v, .. } => so.outcome.ok && w.live_cfg(*v).plr == 0 && so.post_t(*v, t).pos.is_none() && so.swaps.len() == 1,
        _ => false,
    };
    if eligible {
        let sw = &so.swaps[0];
        let e = if sw.input_kind { sw.base } else { sw.quote };
        let add = sw.direction == "AddToAmm";
        // receiving side (base on swap_input add, quote on swap_output add) => ok iff e >= limit
        let receiving = add;
        out.tag(format!("c17:engine-limit-cases:{}", a.kind()));
        // the whole range of the limit's type, not only the neighbourhood of the executed amount: a limit is a limit
        // whatever its size (sentinels such as the type's maximum included)
        let mut lims = vec![1, e / 2, e.saturating_sub(1), e, e + 1, e.saturating_mul(2), 1u128 << 64, 1u128 << 127, u128::MAX - 1, u128::MAX];
        lims.sort_unstable();
        lims.dedup();
        for lim in lims {
            if lim == 0 {
                continue;
            }
            w.restore(&s.snap);
            let al = with_limit(a, lim);
            let o = apply(w, &al);
            out.executions += 1;
            out.tag("c17:engine-limit-evaluations");
            let should = if receiving { e >= lim } else { e <= lim };
            if o.ok != should {
                out.viol(
                    format!("C17:engine-limit-not-honoured:{}:{}:{}", a.kind(), if receiving { "receiving" } else { "paying" }, if lim < e { "below" } else if lim == e { "at" } else { "above" }),
                    format!("{:?} exchanges {} ; with limit {} ok={} expected ok={} ({})", a, e, lim, o.ok, should, o.err),
                );
            }
            let now = w.store.0.borrow().clone();
            if o.ok && now != so.post_snap.kv {
                out.viol(format!("C17:engine-limit-changed-result:{}", a.kind()), format!("{:?} with limit {} reached a different store than without limit", a, lim));
            }
            if !o.ok && now != s.snap.kv {
                out.viol(format!("C17:engine-limit-rejection-changed-store:{}", a.kind()), format!("{:?} with limit {}", a, lim));
            }
        }
        w.restore(&so.post_snap);
    }
    // quotes equal executions through the engine too: the pre-state quote for the whole position is what a
    // whole close / full liquidation exchanges
    if let Act::Close { t, v, .. } | Act::Liq { t, v, .. } = a {
        if so.outcome.ok && so.post_t(*v, t).pos.is_none() && so.swaps.len() == 1 && !so.swaps[0].input_kind {
            let q = so.pre_t(*v, t).out_spot;
            if q >= 0 && q as u128 != so.swaps[0].quote {
                out.viol("C17:engine-quote-differs-from-execution", format!("{:?}: OutputAmount quoted {} but the swap exchanged {}", a, q, so.swaps[0].quote));
            }
        }
    }
    next(&so)
}

pub fn run_c17(tier: Tier) -> i32 {
    let mut run = Run::new("C17", tier.clone());
    run.rule = "vAMM level: in every state of a BFS over swaps, every (kind, direction, amount) of the alphabet is quoted, executed, and re-executed with limit in {e-1, e, e+1}; engine level: every successful single-swap OpenPosition / whole ClosePosition / full Liquidate of a BFS over the engine alphabet is re-executed with limit in {e-1, e, e+1} and compared with the unlimited run; non-trivial = a quote-vs-execution comparison or a limit evaluation".into();
    run.nontrivial = vec!["c17:quote-vs-execution".into(), "c17:limit-evaluations".into(), "c17:engine-limit-evaluations".into()];
    crate::props::vammprops::run_c17_vamm(&mut run, &tier);
    let mut al = StdAlpha::basic(&T2);
    al.sizes = vec![SIZE_S, SIZE_M, SIZE_L];
    al.deposit = None;
    al.withdraw = None;
    al.prices = vec![];
    al.funding = false;
    al.blocks = vec![15, 1200];
    let alpha = al.acts();
    let seeds = vec![vec![], seed_liquidatable()];
    let mut exps = vec![];
    match tier {
        Tier::Quick => {
            exps.push(Exp::new("engine limits", cfg_with(true, true, 0), alpha.clone(), seeds.clone(), 3));
            exps.push(Exp::new("engine limits", cfg_with(false, false, 0), alpha.clone(), seeds.clone(), 2));
        }
        Tier::Thorough => {
            exps.push(Exp::new("engine limits", cfg_with(true, true, 0), alpha.clone(), seeds.clone(), 4));
            exps.push(Exp::new("engine limits", cfg_with(false, false, 0), alpha.clone(), seeds.clone(), 4));
        }
    }
    // whole closes that leave the band (partial ratio 100 %, non-zero fluctuation limit)
    {
        let mut c = cfg_with(true, false, D);
        c.fluct = 50_000;
        c.imr = 100_000;
        exps.push(Exp { setup: None, name: "engine limits over the band".into(), cfg: c, traders: T2.to_vec(), seeds: vec![vec![]], alpha: Alpha::Dyn(alpha_c15), depth: tier.pick(3, 5), init_mon: Value::Null, raw: false });
    }
    push_dec9(&mut exps, tier.pick(1, 3), false);
    run_exps(&mut run, step_c17_eng, exps, |_| {});
    run.finish()
}
