//! C13: lock-step twin deployments (cw20 collateral / native collateral).
use serde_json::{json, Value};

use crate::acts::*;
use crate::engmodel::*;
use crate::evidence::*;
use crate::explorer::*;
use crate::obs::*;
use crate::props::eng::err_class;
use crate::world::*;

pub struct TwinModel {
    pub cfg: Cfg, // cw20 flag ignored
    pub alphabet: Vec<Act>,
}

#[derive(Clone)]
pub struct TwinSt {
    pub cw: Snap,
    pub nat: Snap,
}

pub struct TwinCtx {
    pub cw: World,
    pub nat: World,
    pub init: TwinSt,
}

fn role_accounts(w: &World) -> Vec<(String, String)> {
    let mut v: Vec<(String, String)> = WALLETS.iter().map(|a| (a.to_string(), a.to_string())).collect();
    v.push(("engine".into(), w.engine.to_string()));
    v.push(("insurance_fund".into(), w.ifund.to_string()));
    v.push(("fee_pool".into(), w.fee_pool.to_string()));
    v
}

impl Model for TwinModel {
    type Ctx = TwinCtx;
    type State = TwinSt;
    type Act = Act;
    fn make_ctx(&self) -> TwinCtx {
        let mut c = self.cfg.clone();
        c.cw20 = true;
        let cw = World::new(&c);
        c.cw20 = false;
        let nat = World::new(&c);
        let init = TwinSt { cw: cw.snapshot(), nat: nat.snapshot() };
        TwinCtx { cw, nat, init }
    }
    fn initial(&self, ctx: &mut TwinCtx) -> TwinSt {
        ctx.init.clone()
    }
    fn key(&self, s: &TwinSt) -> Key {
        let a = hash_snap(&s.cw.kv, s.cw.block.height, s.cw.block.time.nanos(), &[]);
        let b = hash_snap(&s.nat.kv, s.nat.block.height, s.nat.block.time.nanos(), &[]);
        hash_parts(&[&a, &b])
    }
    fn actions(&self, _: &mut TwinCtx, _: &TwinSt) -> Vec<Act> {
        self.alphabet.clone()
    }
    fn step(&self, ctx: &mut TwinCtx, s: &TwinSt, a: &Act, out: &mut StepOut) -> Option<TwinSt> {
        let traders: Vec<&str> = T3.to_vec();
        let so_c = run_step(&mut ctx.cw, &s.cw, a, &traders);
        out.executions += 2;
        // what the cw20 deployment pulled from the caller
        let caller = a.sender().unwrap_or("");
        let pulled: u128 = if so_c.outcome.ok {
            so_c.xfers.iter().filter(|x| x.pulled && x.from == caller).map(|x| x.amt).sum()
        } else {
            0
        };
        // native twin with exactly that attached
        ctx.nat.restore(&s.nat);
        let pre_n = observe(&ctx.nat, &traders);
        let o_n = if a.is_engine_tx() { apply_with_funds(&mut ctx.nat, a, pulled) } else { apply(&mut ctx.nat, a) };
        let post_n_snap = ctx.nat.snapshot();
        let post_n = observe(&ctx.nat, &traders);
        let kind = a.kind();
        out.tag(format!("outcome:{}:cw20-{}:native-{}", kind, if so_c.outcome.ok { "ok" } else { "err" }, if o_n.ok { "ok" } else { "err" }));
        let next = TwinSt { cw: so_c.post_snap.clone(), nat: post_n_snap };
        if !a.is_engine_tx() {
            return Some(next);
        }
        let mut diverged = false;
        if so_c.outcome.ok != o_n.ok {
            diverged = true;
            // narrow classification of the step
            let (p0, p1) = match a {
                Act::Open { t, v, .. } | Act::Close { t, v, .. } => (so_c.pre_t(*v, t).pos.clone(), so_c.post_t(*v, t).pos.clone()),
                _ => (None, None),
            };
            let reversal = match (&p0, &p1) {
                (Some(x), Some(y)) => !x.size.is_zero() && !y.size.is_zero() && (size_of(x) > 0) != (size_of(y) > 0),
                _ => false,
            };
            // fees in force: configured at deployment, or switched on mid-history (a close pulls nothing but fees from the trader)
            let fees = self.cfg.toll > 0 || self.cfg.spread > 0 || (kind == "close" && pulled > 0);
            let cls = if so_c.outcome.ok { err_class(&o_n.err) } else { err_class(&so_c.outcome.err) };
            // the engine took the reverse path when the cw20 run executed two vAMM swaps (close leg + open leg)
            let reversal = reversal || so_c.swaps.len() >= 2;
            // the vault was short: the cw20 run had to draw on the insurance fund to pay the trader out
            let (ifa, enga) = (ctx.cw.ifund.to_string(), ctx.cw.engine.to_string());
            let vault_short = so_c.xfers.iter().any(|x| x.from == ifa && x.to == enga);
            // the listed reversal finding: the closed leg has equity to hand back (the native path discards that refund and
            // then demands the whole new margin), and the native refusal is "insufficient", not "excessive"
            let refund_due = match (a, &p0) {
                (Act::Open { t, v, .. }, Some(p)) => {
                    let o = so_c.pre_t(*v, t).out_spot;
                    o >= 0 && p.margin.u128() as i128 + pnl_of(p, o) > 0
                }
                _ => false,
            };
            // the second listed reversal finding: the closed leg's equity is positive but smaller than the fees of the
            // order, and the new leg needs no fresh money (cw20 pulled the fees and nothing else): the native path nets the
            // refund against the fees (required = fees - equity) and refuses the cw20 amount as "excessive"
            let equity = match (a, &p0) {
                (Act::Open { t, v, .. }, Some(p)) => {
                    let o = so_c.pre_t(*v, t).out_spot;
                    if o >= 0 { p.margin.u128() as i128 + pnl_of(p, o) } else { -1 }
                }
                _ => -1,
            };
            let fpa = ctx.cw.fee_pool.to_string();
            let fees_pulled: u128 = so_c.xfers.iter().filter(|x| x.pulled && x.from == caller && (x.to == fpa || x.to == ifa)).map(|x| x.amt).sum();
            let nets_refund = equity > 0 && (equity as u128) < fees_pulled && pulled == fees_pulled;
            let (cls, refine) = if so_c.outcome.ok && kind == "open" && reversal && cls == "sent-funds" && refund_due && o_n.err.contains("insufficient") {
                ("sent-funds".to_string(), "reversal-native-demands-more-than-cw20-pulls")
            } else if so_c.outcome.ok && kind == "open" && reversal && cls == "sent-funds" && nets_refund && o_n.err.contains("excessive") {
                ("sent-funds".to_string(), "reversal-native-nets-refund-against-fees")
            } else if so_c.outcome.ok && kind == "close" && fees && vault_short && cls == "transfer-failure" {
                ("transfer-failure".to_string(), "fees-taken-from-short-vault")
            } else {
                (cls, "unclassified")
            };
            out.viol(
                format!("C13:outcome-differs:{}:{}-fails:{}:{}", kind, if so_c.outcome.ok { "native" } else { "cw20" }, cls, refine),
                format!("{:?}: cw20 ok={} ({}) pulled {} ; native with {} attached ok={} ({})", a, so_c.outcome.ok, so_c.outcome.err.replace('\n', " "), pulled, pulled, o_n.ok, o_n.err.replace('\n', " ")),
            );
        } else if so_c.outcome.ok {
            out.tag("c13:both-succeed");
            if pulled > 0 {
                out.tag("c13:both-succeed-with-funds");
            }
            // positions
            for t in &traders {
                for v in 0..ctx.cw.vamms.len() {
                    let a_ = so_c.post.traders[&(v, t.to_string())].pos.clone();
                    let b_ = post_n.traders[&(v, t.to_string())].pos.clone();
                    let same = match (&a_, &b_) {
                        (None, None) => true,
                        (Some(x), Some(y)) => x.size == y.size && x.margin == y.margin && x.notional == y.notional && x.direction == y.direction && x.last_updated_premium_fraction == y.last_updated_premium_fraction && x.block_number == y.block_number,
                        _ => false,
                    };
                    if !same {
                        diverged = true;
                        out.viol(format!("C13:position-differs:{}", kind), format!("{:?}: {} cw20 {:?} native {:?}", a, t, a_, b_));
                    }
                }
            }
            for v in 0..ctx.cw.vamms.len() {
                let (x, y) = (&so_c.post.vamms[v].state, &post_n.vamms[v].state);
                if x != y || so_c.post.vamms[v].cum != post_n.vamms[v].cum {
                    diverged = true;
                    out.viol(format!("C13:vamm-state-differs:{}", kind), format!("{:?}: cw20 {:?} native {:?}", a, x, y));
                }
            }
            if so_c.post.oi_notional != post_n.oi_notional || so_c.post.prepaid_bad_debt != post_n.prepaid_bad_debt {
                diverged = true;
                out.viol(format!("C13:engine-state-differs:{}", kind), format!("{:?}: cw20 oi {} bad debt {} ; native oi {} bad debt {}", a, so_c.post.oi_notional, so_c.post.prepaid_bad_debt, post_n.oi_notional, post_n.prepaid_bad_debt));
            }
            let rc = role_accounts(&ctx.cw);
            let rn = role_accounts(&ctx.nat);
            for ((role, ac), (_, an)) in rc.iter().zip(rn.iter()) {
                let dc = so_c.bal_delta(ac);
                let dn = post_n.balances[an] as i128 - pre_n.balances[an] as i128;
                if dc != dn {
                    diverged = true;
                    let who = if role == caller { "caller".to_string() } else { role.clone() };
                    out.viol(
                        format!("C13:balance-delta-differs:{}:{}", kind, who),
                        format!("{:?}: {} moved {} on cw20 but {} on native", a, role, dc, dn),
                    );
                }
            }
        }
        if diverged {
            out.tag("c13:diverged-not-expanded");
            None
        } else {
            Some(next)
        }
    }
}

fn model_for(params: &Value) -> TwinModel {
    TwinModel { cfg: from_val(&params["cfg"]), alphabet: vec![] }
}

pub fn replay_twin(params: &Value, actions: &Value) -> Vec<Viol> {
    let model = model_for(params);
    let acts: Vec<Act> = from_val(actions);
    let mut ctx = model.make_ctx();
    let mut s = model.initial(&mut ctx);
    let mut all = vec![];
    for (i, a) in acts.iter().enumerate() {
        let mut out = StepOut::default();
        let ns = model.step(&mut ctx, &s, a, &mut out);
        println!("step {:2}: {:?}", i, a);
        for (t, _) in &out.tags {
            if t.starts_with("outcome:") {
                println!("          {}", t);
            }
        }
        for v in &out.viols {
            println!("          VIOLATES {} :: {}", v.sig, v.detail);
        }
        all.extend(out.viols);
        match ns {
            Some(ns) => s = ns,
            None => break,
        }
    }
    all
}

pub fn run_c13(tier: Tier) -> i32 {
    let mut run = Run::new("C13", tier.clone());
    run.rule = "twin state = (cw20 deployment, native deployment); every action sequence up to the depth bound is executed in lock-step: first on the cw20 twin, then on the native twin with exactly the amount the cw20 twin pulled from the caller attached; outcome, positions, vAMM state, engine state and per-account balance deltas compared after every step; a diverged twin state is reported once and not expanded; non-trivial = a step on which both twins succeeded".into();
    run.nontrivial = vec!["c13:both-succeed".into()];
    let alpha = StdAlpha::basic(&T2).acts();
    let seeds = vec![vec![], seed_liquidatable(), seed_vault_drained(), seed_funded()];
    let mk = |fees: bool, plr: u128| Cfg { toll: if fees { 3_000 } else { 0 }, spread: if fees { 7_000 } else { 0 }, plr, ..Cfg::default() };
    let confs: Vec<(Cfg, usize)> = match tier {
        Tier::Quick => vec![(mk(true, 0), 3), (mk(false, 250_000), 3)],
        Tier::Thorough => vec![(mk(true, 0), 4), (mk(false, 0), 4), (mk(true, 250_000), 4), (mk(false, 250_000), 4)],
    };
    // an almost empty insurance fund: shortfalls (bad debt, funding owed to the vault) exceed it
    let mut confs = confs;
    let mut poor = mk(false, 0);
    poor.if_funds = 2 * D;
    confs.push((poor, tier.pick(3, 4)));
    // breadth over configurations: the covering array of the engine-level checks (collateral dimension
    // is the twin itself), shallow
    let mut seen = std::collections::BTreeSet::new();
    for mut c in crate::props::engprops::covering_configs() {
        c.cw20 = true;
        c.dec = 6; // native collateral exists with 6 decimals only
        if seen.insert(c.label()) {
            confs.push((c, tier.pick(2, 3)));
        }
    }
    for (c, d) in confs {
        let m = TwinModel { cfg: c.clone(), alphabet: alpha.clone() };
        run.explore(&format!("twin [{}]", c.label().replace("cw20", "cw20||native ")), json!({"cfg": to_val(&c)}), &m, &seeds, &Limits::new(d));
    }
    // a position that a third party's trade (a family of sizes) has left with an equity around zero - a little above,
    // a little below, by less and by more than the fee of the next order - and that its owner then reduces,
    // reverses (with and without remainder) or closes, fees on
    {
        let mut fam = vec![];
        for long in [true, false] {
            for n in [150u128, 160, 165, 170, 175, 180, 185, 190, 195, 200, 210, 230] {
                fam.push(vec![
                    Act::open("alice", long, SIZE_M.0, SIZE_M.1),
                    Act::blk(15),
                    Act::open("bob", !long, n * D, D),
                    Act::blk(15),
                ]);
            }
        }
        // the history on which the thorough tier found the second reversal finding (equity of the closed leg positive
        // but below the order's fees, remainder re-opened at high leverage), so that the quick tier meets it too
        fam.push(vec![
            Act::open("alice", true, SIZE_M.0, SIZE_M.1),
            Act::open("alice", true, SIZE_L.0, SIZE_L.1),
            Act::open("bob", false, SIZE_S.0, SIZE_S.1),
        ]);
        let mut al = vec![];
        for (mg, l) in [SIZE_S, SIZE_M, (3 * D, 2 * D), SIZE_L] {
            for buy in [true, false] {
                al.push(Act::Open { t: "alice".into(), v: 0, buy, margin: mg, lev: l, limit: 0 });
            }
        }
        al.push(Act::close("alice"));
        al.push(Act::Dep { t: "alice".into(), v: 0, amt: D });
        al.push(Act::Wd { t: "alice".into(), v: 0, amt: D });
        let c = mk(true, 0);
        let m = TwinModel { cfg: c.clone(), alphabet: al };
        run.explore(&format!("twin, equity around zero (family of third-party trades) [{}]", c.label().replace("cw20", "cw20||native ")), json!({"cfg": to_val(&c)}), &m, &fam, &Limits::new(tier.pick(1, 2)));
    }
    // the explorations shared with the engine-level checks: configuration changed mid-history, dust positions
    let mut extra = vec![];
    crate::props::engprops::push_cfgchange(&mut extra, tier.pick(3, 4));
    crate::props::engprops::push_dust(&mut extra, true, tier.pick(3, 4));
    for e in extra {
        if !e.cfg.cw20 {
            continue;
        }
        if let crate::props::engprops::Alpha::Static(a) = &e.alpha {
            let m = TwinModel { cfg: e.cfg.clone(), alphabet: a.clone() };
            run.explore(&format!("twin, {} [{}]", e.name, e.cfg.label().replace("cw20", "cw20||native ")), json!({"cfg": to_val(&e.cfg)}), &m, &e.seeds, &Limits::new(e.depth));
        }
    }
    run.finish()
}
