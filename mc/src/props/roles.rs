//! C09: every execute variant of every contract x every kind of sender x role states.
use std::collections::{BTreeMap, BTreeSet};

use cosmwasm_std::{Addr, Uint128};
use margined_common::asset::AssetInfo;
use margined_perp::margined_engine::ExecuteMsg as EngineExec;
use margined_perp::margined_fee_pool::ExecuteMsg as FpExec;
use margined_perp::margined_insurance_fund::ExecuteMsg as IfExec;
use margined_perp::margined_pricefeed::ExecuteMsg as PfExec;
use margined_perp::margined_vamm::{Direction, ExecuteMsg as VammExec};
use serde::{Deserialize, Serialize};
use serde_json::{json, Value};

use crate::evidence::*;
use crate::explorer::*;
use crate::world::*;

#[derive(Clone, Debug, Serialize, Deserialize, PartialEq)]
pub enum RAct {
    /// transfer `role` to `to`, sent by its current holder; `combo`: the same message also sets an unrelated,
    /// valid configuration field (where the transfer is a field of an UpdateConfig message)
    Transfer {
        role: String,
        to: String,
        #[serde(default)]
        combo: bool,
    },
    /// the holder of `role` tries to hand it to nobody (an empty address string). Refused on a tree that does not
    /// allow a vacant role; if it is accepted, nobody holds the role afterwards and every sender is outside it
    Vacate {
        role: String,
    },
    TogglePause,
    ToggleOpen,
    Probe,
}

#[derive(Clone, Debug, Serialize, Deserialize, PartialEq)]
pub struct Roles {
    /// role name -> current holder
    pub cur: BTreeMap<String, String>,
    /// role name -> previous holders
    pub prev: BTreeMap<String, Vec<String>>,
}

#[derive(Clone)]
pub struct RSt {
    pub snap: Snap,
    pub roles: Roles,
}

pub struct RoleModel {
    pub cfg: Cfg,
    pub targets: usize,
}

pub struct RCtx {
    pub w: World,
    pub init: Snap,
}

const ROLES: [&str; 8] = [
    "vamm_owner",
    "vamm_engine",
    "vamm_ifund",
    "engine_owner",
    "pauser",
    "ifund_owner",
    "feepool_owner",
    "feed_owner",
];

fn alt_names(role: &str) -> Vec<String> {
    vec![format!("{}_b", role), format!("{}_c", role)]
}

fn setup(w: &mut World) {
    let (eng, fp, tok) = (w.engine.clone(), w.fee_pool.clone(), w.token.clone().unwrap());
    assert!(w.exec("owner", &eng, &EngineExec::AddWhitelist { address: "carol".into() }, 0).ok);
    assert!(w.exec("owner", &fp, &FpExec::AddToken { token: tok.to_string() }, 0).ok);
    assert!(w
        .exec("alice", &tok, &cw20::Cw20ExecuteMsg::Transfer { recipient: fp.to_string(), amount: Uint128::new(10 * D) }, 0)
        .ok);
    w.advance(1, 3900);
    // a round inside the TWAP window so that funding can settle with the repository's own feed
    let now = w.now();
    let f = w.real_pf.clone();
    assert!(w.exec("owner", &f, &PfExec::AppendPrice { key: "ETH".into(), price: Uint128::new(10 * D), timestamp: now - 10 }, 0).ok);
}

fn initial_roles(w: &World) -> Roles {
    let mut cur = BTreeMap::new();
    for r in ROLES {
        cur.insert(r.to_string(), "owner".to_string());
    }
    cur.insert("vamm_engine".into(), w.engine.to_string());
    cur.insert("vamm_ifund".into(), w.ifund.to_string());
    Roles { cur, prev: BTreeMap::new() }
}

fn paused(w: &World) -> bool {
    let mut k = contract_prefix(w.engine.as_str());
    k.extend(len_prefixed(b"state"));
    w.store.0.borrow().get(&k).and_then(|v| serde_json::from_slice::<Value>(v).ok()).and_then(|j| j["pause"].as_bool()).unwrap_or(false)
}

fn transfer_msg(w: &World, role: &str, to: &str, combo: bool) -> (Addr, Value) {
    let v0 = w.vamms[0].clone();
    let no = |k: &str, val: &str| {
        let mut m = json!({"base_asset_holding_cap": null, "open_interest_notional_cap": null, "toll_ratio": null, "spread_ratio": null, "fluctuation_limit_ratio": null, "margin_engine": null, "insurance_fund": null, "pricefeed": null, "spot_price_twap_interval": null});
        m[k] = json!(val);
        if combo {
            m[if k == "margin_engine" { "toll_ratio" } else { "spread_ratio" }] = json!("2000");
        }
        json!({"update_config": m})
    };
    match role {
        "vamm_owner" => (v0, json!({"update_owner": {"owner": to}})),
        "vamm_engine" => (v0, no("margin_engine", to)),
        "vamm_ifund" => (v0, no("insurance_fund", to)),
        "engine_owner" => (w.engine.clone(), json!({"update_config": {"owner": to, "insurance_fund": null, "fee_pool": null, "initial_margin_ratio": null, "maintenance_margin_ratio": null, "partial_liquidation_ratio": null, "liquidation_fee": if combo { json!("40000") } else { Value::Null }}})),
        "pauser" => (w.engine.clone(), json!({"update_pauser": {"pauser": to}})),
        "ifund_owner" => (w.ifund.clone(), json!({"update_owner": {"owner": to}})),
        "feepool_owner" => (w.fee_pool.clone(), json!({"update_owner": {"owner": to}})),
        "feed_owner" => (w.real_pf.clone(), json!({"update_owner": {"owner": to}})),
        _ => unreachable!(),
    }
}

/// `msg` with one string argument at a time replaced by the sender's own address (numeric strings and strings that
/// already name the sender are left alone)
fn self_naming_variants(msg: &Value, sender: &str) -> Vec<Value> {
    fn paths(v: &Value, cur: &mut Vec<String>, out: &mut Vec<Vec<String>>) {
        match v {
            Value::Object(m) => {
                for (k, x) in m {
                    cur.push(k.clone());
                    paths(x, cur, out);
                    cur.pop();
                }
            }
            Value::String(s) if !s.is_empty() && s.parse::<u128>().is_err() && !s.starts_with('-') => out.push(cur.clone()),
            _ => {}
        }
    }
    let mut ps = vec![];
    paths(msg, &mut vec![], &mut ps);
    let mut out = vec![];
    for p in ps {
        let mut m = msg.clone();
        {
            let mut x = &mut m;
            for k in &p {
                x = &mut x[k.as_str()];
            }
            if x.as_str() == Some(sender) {
                continue;
            }
            *x = Value::String(sender.to_string());
        }
        out.push(m);
    }
    out
}

/// who signs a transfer of `role`
fn transfer_signer(roles: &Roles, role: &str) -> String {
    match role {
        "vamm_engine" | "vamm_ifund" => roles.cur["vamm_owner"].clone(),
        r => roles.cur[r].clone(),
    }
}

struct Case {
    contract: &'static str,
    variant: &'static str,
    addr: Addr,
    msg: Value,
    /// role names whose holders may call it; empty = public
    allowed: Vec<&'static str>,
    /// has no other reason to fail in this state
    can_succeed: bool,
}

fn cases(w: &World) -> Vec<Case> {
    let v0 = w.vamms[0].clone();
    let vs = w.vstate(0);
    let open = vs.open;
    let now = w.now();
    let tok = w.token.clone().unwrap();
    // shutdown can only work if every registered vAMM is open and still names this fund as its insurance fund
    let all_open = (0..w.vamms.len()).all(|i| w.vstate(i).open && w.vcfg(i).insurance_fund == w.ifund);
    let p = paused(w);
    let ser = |m: &dyn erased::Ser| m.to_value();
    let mut c = vec![];
    // ---- vAMM
    c.push(Case { contract: "vamm", variant: "update_config", addr: v0.clone(), msg: ser(&VammExec::UpdateConfig { base_asset_holding_cap: None, open_interest_notional_cap: None, toll_ratio: Some(Uint128::new(1000)), spread_ratio: None, fluctuation_limit_ratio: None, margin_engine: None, insurance_fund: None, pricefeed: None, spot_price_twap_interval: None }), allowed: vec!["vamm_owner"], can_succeed: true });
    c.push(Case { contract: "vamm", variant: "update_owner", addr: v0.clone(), msg: ser(&VammExec::UpdateOwner { owner: "zed".into() }), allowed: vec!["vamm_owner"], can_succeed: true });
    c.push(Case { contract: "vamm", variant: "swap_input", addr: v0.clone(), msg: ser(&VammExec::SwapInput { direction: Direction::AddToAmm, quote_asset_amount: Uint128::new(D), base_asset_limit: Uint128::zero(), can_go_over_fluctuation: false }), allowed: vec!["vamm_engine"], can_succeed: open });
    c.push(Case { contract: "vamm", variant: "swap_output", addr: v0.clone(), msg: ser(&VammExec::SwapOutput { direction: Direction::RemoveFromAmm, base_asset_amount: Uint128::new(1000), quote_asset_limit: Uint128::zero() }), allowed: vec!["vamm_engine"], can_succeed: open });
    c.push(Case { contract: "vamm", variant: "settle_funding", addr: v0.clone(), msg: ser(&VammExec::SettleFunding {}), allowed: vec!["vamm_engine"], can_succeed: open && now >= vs.next_funding_time });
    c.push(Case { contract: "vamm", variant: "set_open", addr: v0.clone(), msg: ser(&VammExec::SetOpen { open: !open }), allowed: vec!["vamm_owner", "vamm_ifund"], can_succeed: true });
    // ---- engine
    let e = w.engine.clone();
    c.push(Case { contract: "engine", variant: "update_config", addr: e.clone(), msg: ser(&EngineExec::UpdateConfig { owner: None, insurance_fund: None, fee_pool: None, initial_margin_ratio: None, maintenance_margin_ratio: None, partial_liquidation_ratio: None, liquidation_fee: Some(Uint128::new(40_000)) }), allowed: vec!["engine_owner"], can_succeed: true });
    c.push(Case { contract: "engine", variant: "update_pauser", addr: e.clone(), msg: ser(&EngineExec::UpdatePauser { pauser: "zed".into() }), allowed: vec!["pauser"], can_succeed: true });
    c.push(Case { contract: "engine", variant: "add_whitelist", addr: e.clone(), msg: ser(&EngineExec::AddWhitelist { address: "dave".into() }), allowed: vec!["pauser"], can_succeed: true });
    c.push(Case { contract: "engine", variant: "remove_whitelist", addr: e.clone(), msg: ser(&EngineExec::RemoveWhitelist { address: "carol".into() }), allowed: vec!["pauser"], can_succeed: true });
    c.push(Case { contract: "engine", variant: "set_pause", addr: e.clone(), msg: ser(&EngineExec::SetPause { pause: !p }), allowed: vec!["pauser"], can_succeed: true });
    let v0s = v0.to_string();
    c.push(Case { contract: "engine", variant: "open_position", addr: e.clone(), msg: ser(&EngineExec::OpenPosition { vamm: v0s.clone(), side: margined_perp::margined_engine::Side::Buy, margin_amount: Uint128::new(5 * D), leverage: Uint128::new(2 * D), base_asset_limit: Uint128::zero() }), allowed: vec![], can_succeed: false });
    c.push(Case { contract: "engine", variant: "close_position", addr: e.clone(), msg: ser(&EngineExec::ClosePosition { vamm: v0s.clone(), quote_asset_limit: Uint128::zero() }), allowed: vec![], can_succeed: false });
    c.push(Case { contract: "engine", variant: "liquidate", addr: e.clone(), msg: ser(&EngineExec::Liquidate { vamm: v0s.clone(), trader: "alice".into(), quote_asset_limit: Uint128::zero() }), allowed: vec![], can_succeed: false });
    c.push(Case { contract: "engine", variant: "pay_funding", addr: e.clone(), msg: ser(&EngineExec::PayFunding { vamm: v0s.clone() }), allowed: vec![], can_succeed: false });
    c.push(Case { contract: "engine", variant: "deposit_margin", addr: e.clone(), msg: ser(&EngineExec::DepositMargin { vamm: v0s.clone(), amount: Uint128::new(D) }), allowed: vec![], can_succeed: false });
    c.push(Case { contract: "engine", variant: "withdraw_margin", addr: e.clone(), msg: ser(&EngineExec::WithdrawMargin { vamm: v0s, amount: Uint128::new(1) }), allowed: vec![], can_succeed: false });
    // ---- insurance fund
    let f = w.ifund.clone();
    c.push(Case { contract: "insurance_fund", variant: "update_owner", addr: f.clone(), msg: ser(&IfExec::UpdateOwner { owner: "zed".into() }), allowed: vec!["ifund_owner"], can_succeed: true });
    c.push(Case { contract: "insurance_fund", variant: "add_vamm", addr: f.clone(), msg: ser(&IfExec::AddVamm { vamm: w.unregistered.clone().unwrap().to_string() }), allowed: vec!["ifund_owner"], can_succeed: true });
    c.push(Case { contract: "insurance_fund", variant: "remove_vamm", addr: f.clone(), msg: ser(&IfExec::RemoveVamm { vamm: w.vamms[1].to_string() }), allowed: vec!["ifund_owner"], can_succeed: true });
    c.push(Case { contract: "insurance_fund", variant: "withdraw", addr: f.clone(), msg: ser(&IfExec::Withdraw { token: AssetInfo::Token { contract_addr: tok.clone() }, amount: Uint128::new(D) }), allowed: vec!["the_engine_contract"], can_succeed: true });
    c.push(Case { contract: "insurance_fund", variant: "shutdown_vamms", addr: f.clone(), msg: ser(&IfExec::ShutdownVamms {}), allowed: vec!["ifund_owner"], can_succeed: all_open });
    // ---- fee pool
    let fp = w.fee_pool.clone();
    c.push(Case { contract: "fee_pool", variant: "update_owner", addr: fp.clone(), msg: ser(&FpExec::UpdateOwner { owner: "zed".into() }), allowed: vec!["feepool_owner"], can_succeed: true });
    c.push(Case { contract: "fee_pool", variant: "add_token", addr: fp.clone(), msg: ser(&FpExec::AddToken { token: "ujunox".into() }), allowed: vec!["feepool_owner"], can_succeed: true });
    c.push(Case { contract: "fee_pool", variant: "remove_token", addr: fp.clone(), msg: ser(&FpExec::RemoveToken { token: tok.to_string() }), allowed: vec!["feepool_owner"], can_succeed: true });
    c.push(Case { contract: "fee_pool", variant: "send_token", addr: fp.clone(), msg: ser(&FpExec::SendToken { token: tok.to_string(), amount: Uint128::new(1000), recipient: "zed".into() }), allowed: vec!["feepool_owner"], can_succeed: true });
    // ---- price feed
    let pf = w.real_pf.clone();
    c.push(Case { contract: "pricefeed", variant: "append_price", addr: pf.clone(), msg: ser(&PfExec::AppendPrice { key: "ETH".into(), price: Uint128::new(11 * D), timestamp: now }), allowed: vec!["feed_owner"], can_succeed: true });
    c.push(Case { contract: "pricefeed", variant: "append_multiple_price", addr: pf.clone(), msg: ser(&PfExec::AppendMultiplePrice { key: "ETH".into(), prices: vec![Uint128::new(11 * D), Uint128::new(12 * D)], timestamps: vec![now - 1, now] }), allowed: vec!["feed_owner"], can_succeed: true });
    c.push(Case { contract: "pricefeed", variant: "update_owner", addr: pf.clone(), msg: ser(&PfExec::UpdateOwner { owner: "zed".into() }), allowed: vec!["feed_owner"], can_succeed: true });
    // ---- degenerate arguments (empty batches, zero amounts, no-op updates, entries that are already there / not there):
    // the role holder need not succeed with them, but nobody else may, and a refusal changes nothing
    let none_cfg = VammExec::UpdateConfig { base_asset_holding_cap: None, open_interest_notional_cap: None, toll_ratio: None, spread_ratio: None, fluctuation_limit_ratio: None, margin_engine: None, insurance_fund: None, pricefeed: None, spot_price_twap_interval: None };
    c.push(Case { contract: "vamm", variant: "update_config", addr: v0.clone(), msg: ser(&none_cfg), allowed: vec!["vamm_owner"], can_succeed: false });
    c.push(Case { contract: "vamm", variant: "set_open", addr: v0.clone(), msg: ser(&VammExec::SetOpen { open }), allowed: vec!["vamm_owner", "vamm_ifund"], can_succeed: false });
    c.push(Case { contract: "vamm", variant: "swap_input", addr: v0.clone(), msg: ser(&VammExec::SwapInput { direction: Direction::AddToAmm, quote_asset_amount: Uint128::zero(), base_asset_limit: Uint128::zero(), can_go_over_fluctuation: true }), allowed: vec!["vamm_engine"], can_succeed: false });
    c.push(Case { contract: "vamm", variant: "swap_output", addr: v0.clone(), msg: ser(&VammExec::SwapOutput { direction: Direction::AddToAmm, base_asset_amount: Uint128::zero(), quote_asset_limit: Uint128::zero() }), allowed: vec!["vamm_engine"], can_succeed: false });
    c.push(Case { contract: "engine", variant: "update_config", addr: e.clone(), msg: ser(&EngineExec::UpdateConfig { owner: None, insurance_fund: None, fee_pool: None, initial_margin_ratio: None, maintenance_margin_ratio: None, partial_liquidation_ratio: None, liquidation_fee: None }), allowed: vec!["engine_owner"], can_succeed: false });
    c.push(Case { contract: "engine", variant: "set_pause", addr: e.clone(), msg: ser(&EngineExec::SetPause { pause: p }), allowed: vec!["pauser"], can_succeed: false });
    c.push(Case { contract: "engine", variant: "add_whitelist", addr: e.clone(), msg: ser(&EngineExec::AddWhitelist { address: "carol".into() }), allowed: vec!["pauser"], can_succeed: false });
    c.push(Case { contract: "engine", variant: "remove_whitelist", addr: e.clone(), msg: ser(&EngineExec::RemoveWhitelist { address: "dave".into() }), allowed: vec!["pauser"], can_succeed: false });
    c.push(Case { contract: "insurance_fund", variant: "add_vamm", addr: f.clone(), msg: ser(&IfExec::AddVamm { vamm: w.vamms[0].to_string() }), allowed: vec!["ifund_owner"], can_succeed: false });
    c.push(Case { contract: "insurance_fund", variant: "remove_vamm", addr: f.clone(), msg: ser(&IfExec::RemoveVamm { vamm: w.unregistered.clone().unwrap().to_string() }), allowed: vec!["ifund_owner"], can_succeed: false });
    c.push(Case { contract: "insurance_fund", variant: "withdraw", addr: f.clone(), msg: ser(&IfExec::Withdraw { token: AssetInfo::Token { contract_addr: tok.clone() }, amount: Uint128::zero() }), allowed: vec!["the_engine_contract"], can_succeed: false });
    c.push(Case { contract: "fee_pool", variant: "send_token", addr: fp.clone(), msg: ser(&FpExec::SendToken { token: tok.to_string(), amount: Uint128::zero(), recipient: "zed".into() }), allowed: vec!["feepool_owner"], can_succeed: false });
    c.push(Case { contract: "fee_pool", variant: "send_token", addr: fp.clone(), msg: ser(&FpExec::SendToken { token: "ujunox".into(), amount: Uint128::new(1), recipient: "zed".into() }), allowed: vec!["feepool_owner"], can_succeed: false });
    c.push(Case { contract: "fee_pool", variant: "add_token", addr: fp.clone(), msg: ser(&FpExec::AddToken { token: tok.to_string() }), allowed: vec!["feepool_owner"], can_succeed: false });
    c.push(Case { contract: "fee_pool", variant: "remove_token", addr: fp.clone(), msg: ser(&FpExec::RemoveToken { token: "ujunox".into() }), allowed: vec!["feepool_owner"], can_succeed: false });
    c.push(Case { contract: "pricefeed", variant: "append_multiple_price", addr: pf.clone(), msg: ser(&PfExec::AppendMultiplePrice { key: "ETH".into(), prices: vec![], timestamps: vec![] }), allowed: vec!["feed_owner"], can_succeed: false });
    c.push(Case { contract: "pricefeed", variant: "append_multiple_price", addr: pf.clone(), msg: ser(&PfExec::AppendMultiplePrice { key: "ETH".into(), prices: vec![Uint128::new(11 * D)], timestamps: vec![] }), allowed: vec!["feed_owner"], can_succeed: false });
    c.push(Case { contract: "pricefeed", variant: "append_price", addr: pf.clone(), msg: ser(&PfExec::AppendPrice { key: "ETH".into(), price: Uint128::zero(), timestamp: 0 }), allowed: vec!["feed_owner"], can_succeed: false });
    c
}

mod erased {
    use serde::Serialize;
    use serde_json::Value;
    pub trait Ser {
        fn to_value(&self) -> Value;
    }
    impl<T: Serialize> Ser for T {
        fn to_value(&self) -> Value {
            serde_json::from_str(&serde_json::to_string(self).unwrap()).unwrap()
        }
    }
}

/// execute variants declared by each contract's message type (from its JSON schema)
fn declared_variants() -> BTreeMap<&'static str, BTreeSet<String>> {
    fn names<T: schemars::JsonSchema>() -> BTreeSet<String> {
        let s = schemars::schema_for!(T);
        let v = serde_json::to_value(&s).unwrap();
        let mut out = BTreeSet::new();
        if let Some(arr) = v["oneOf"].as_array().or_else(|| v["anyOf"].as_array()) {
            for e in arr {
                if let Some(r) = e["required"].as_array() {
                    for n in r {
                        out.insert(n.as_str().unwrap().to_string());
                    }
                }
                if let Some(en) = e["enum"].as_array() {
                    for n in en {
                        out.insert(n.as_str().unwrap().to_string());
                    }
                }
            }
        }
        out
    }
    let mut m = BTreeMap::new();
    m.insert("vamm", names::<VammExec>());
    m.insert("engine", names::<EngineExec>());
    m.insert("insurance_fund", names::<IfExec>());
    m.insert("fee_pool", names::<FpExec>());
    m.insert("pricefeed", names::<PfExec>());
    m
}

fn sender_kind(w: &World, roles: &Roles, s: &str, allowed_roles: &[&str]) -> String {
    if s == w.engine.as_str() {
        return "engine-contract".into();
    }
    if s == w.ifund.as_str() {
        return "insurance-fund-contract".into();
    }
    if w.vamms.iter().any(|v| v.as_str() == s) {
        return "vamm-contract".into();
    }
    for r in allowed_roles {
        if roles.prev.get(*r).map(|p| p.iter().any(|x| x == s)).unwrap_or(false) {
            return "previous-holder".into();
        }
    }
    if roles.cur.values().any(|x| x == s) {
        return "holder-of-another-role".into();
    }
    match s {
        "alice" => "trader".into(),
        "stranger" => "stranger".into(),
        _ => "other".into(),
    }
}

impl Model for RoleModel {
    type Ctx = RCtx;
    type State = RSt;
    type Act = RAct;
    fn make_ctx(&self) -> RCtx {
        let mut w = World::new(&self.cfg);
        setup(&mut w);
        let init = w.snapshot();
        RCtx { w, init }
    }
    fn initial(&self, ctx: &mut RCtx) -> RSt {
        RSt { snap: ctx.init.clone(), roles: initial_roles(&ctx.w) }
    }
    fn key(&self, s: &RSt) -> Key {
        hash_snap(&s.snap.kv, s.snap.block.height, s.snap.block.time.nanos(), &serde_json::to_vec(&s.roles).unwrap())
    }
    fn actions(&self, _: &mut RCtx, s: &RSt) -> Vec<RAct> {
        let mut a = vec![RAct::Probe];
        for r in ROLES {
            let mut ts = alt_names(r);
            ts.truncate(self.targets);
            // and back to the original holder
            let orig = match r {
                "vamm_engine" | "vamm_ifund" => None,
                _ => Some("owner".to_string()),
            };
            if let Some(o) = orig {
                ts.push(o);
            }
            if s.roles.cur[r].is_empty() {
                // a vacated role has no holder who could transfer it
                continue;
            }
            a.push(RAct::Vacate { role: r.to_string() });
            for t in ts {
                if s.roles.cur[r] != t {
                    a.push(RAct::Transfer { role: r.to_string(), to: t.clone(), combo: false });
                    if matches!(r, "vamm_engine" | "vamm_ifund" | "engine_owner") {
                        a.push(RAct::Transfer { role: r.to_string(), to: t, combo: true });
                    }
                }
            }
        }
        if !s.roles.cur["pauser"].is_empty() {
            a.push(RAct::TogglePause);
        }
        if !s.roles.cur["vamm_owner"].is_empty() {
            a.push(RAct::ToggleOpen);
        }
        a
    }
    fn step(&self, ctx: &mut RCtx, s: &RSt, a: &RAct, out: &mut StepOut) -> Option<RSt> {
        let w = &mut ctx.w;
        w.restore(&s.snap);
        let mut roles = s.roles.clone();
        match a {
            RAct::Probe => {}
            RAct::Transfer { role, to, combo } => {
                let signer = transfer_signer(&roles, role);
                let (addr, msg) = transfer_msg(w, role, to, *combo);
                let o = w.exec_json(&signer, &addr, &msg);
                out.executions += 1;
                if !o.ok {
                    out.viol(format!("C09:role-holder-rejected:transfer:{}", role), format!("{} could not transfer {} to {}: {}", signer, role, to, o.err));
                    return None;
                }
                let old = roles.cur.insert(role.clone(), to.clone()).unwrap();
                roles.prev.entry(role.clone()).or_default().push(old);
                let p = roles.prev.get_mut(role).unwrap();
                p.retain(|x| x != to);
                p.sort();
                p.dedup();
            }
            RAct::Vacate { role } => {
                let signer = transfer_signer(&roles, role);
                if signer.is_empty() {
                    return None;
                }
                let (addr, msg) = transfer_msg(w, role, "", false);
                let o = w.exec_json(&signer, &addr, &msg);
                out.executions += 1;
                if !o.ok {
                    out.tag("c09:vacating-a-role-refused");
                    return None;
                }
                out.tag("c09:vacating-a-role-accepted");
                let old = roles.cur.insert(role.clone(), String::new()).unwrap();
                let p = roles.prev.entry(role.clone()).or_default();
                p.push(old);
                p.sort();
                p.dedup();
            }
            RAct::TogglePause => {
                let p = paused(w);
                let e = w.engine.clone();
                let signer = roles.cur["pauser"].clone();
                let o = w.exec(&signer, &e, &EngineExec::SetPause { pause: !p }, 0);
                out.executions += 1;
                if !o.ok {
                    out.viol("C09:role-holder-rejected:engine:set_pause", format!("{}: {}", signer, o.err));
                    return None;
                }
            }
            RAct::ToggleOpen => {
                let open = w.vstate(0).open;
                let v = w.vamms[0].clone();
                let signer = roles.cur["vamm_owner"].clone();
                let o = w.exec(&signer, &v, &VammExec::SetOpen { open: !open }, 0);
                out.executions += 1;
                if !o.ok {
                    out.viol("C09:role-holder-rejected:vamm:set_open", format!("{}: {}", signer, o.err));
                    return None;
                }
            }
        }
        let post = w.snapshot();
        // ---- the matrix in this role state
        let cs = cases(w);
        let mut senders: BTreeSet<String> = BTreeSet::new();
        for v in roles.cur.values() {
            senders.insert(v.clone());
        }
        for v in roles.prev.values() {
            for x in v {
                senders.insert(x.clone());
            }
        }
        // the deployer, a trader, a stranger, and every address that appears in an instantiate message
        // without holding a role ("oracle_hub" = the price feeds' oracle_hub_contract, "insurance_fund" = the
        // engine's placeholder insurance fund before UpdateConfig)
        // ... and "carol", the address the set-up whitelisted: an address *named in* privileged state holds no role
        for x in ["owner", "alice", "stranger", "oracle_hub", "insurance_fund", "carol"] {
            senders.insert(x.into());
        }
        senders.insert(w.engine.to_string());
        senders.insert(w.ifund.to_string());
        senders.insert(w.vamms[1].to_string());
        // a vacated role has no holder to send anything
        senders.remove("");
        for c in &cs {
            let allowed: BTreeSet<String> = c
                .allowed
                .iter()
                .map(|r| if *r == "the_engine_contract" { w.engine.to_string() } else { roles.cur[*r].clone() })
                .collect();
            for sname in &senders {
                w.restore(&post);
                let o = w.exec_json(sname, &c.addr, &c.msg);
                out.executions += 1;
                let changed = w.store.0.borrow().clone() != post.kv;
                if c.allowed.is_empty() {
                    out.tag("c09:public-variant-evaluations");
                    let e = o.err.to_lowercase();
                    // a public entry point must not be rejected for lack of a role ("sender not margin
                    // engine" from a vAMM whose margin-engine role was transferred away is a nested,
                    // legitimate consequence and is not counted)
                    if !o.ok && (e.contains("unauthorized") || e.contains("not admin")) {
                        out.viol(format!("C09:public-entry-point-demands-role:{}:{}", c.contract, c.variant), format!("{} -> {}: {}", sname, c.variant, o.err));
                    }
                    continue;
                }
                if allowed.contains(sname) {
                    out.tag("c09:role-holder-evaluations");
                    if c.can_succeed && !o.ok {
                        out.viol(
                            format!("C09:role-holder-rejected:{}:{}", c.contract, c.variant),
                            format!("{} holds the role for {}::{} but was rejected: {} (roles {:?})", sname, c.contract, c.variant, o.err, roles.cur),
                        );
                    }
                } else {
                    out.tag("c09:non-holder-evaluations");
                    if o.ok || changed {
                        out.viol(
                            format!("C09:unauthorised-accepted:{}:{}:{}", c.contract, c.variant, sender_kind(w, &roles, sname, &c.allowed)),
                            format!("{} is not allowed to call {}::{} (allowed {:?}) yet ok={} store changed={} ", sname, c.contract, c.variant, allowed, o.ok, changed),
                        );
                    }
                    // a non-holder is refused whatever the arguments: the same message with each address-like
                    // argument naming the sender itself (renouncing "its own" entry, claiming the role for itself)
                    for m2 in self_naming_variants(&c.msg, sname) {
                        w.restore(&post);
                        let o = w.exec_json(sname, &c.addr, &m2);
                        out.executions += 1;
                        out.tag("c09:non-holder-self-naming-evaluations");
                        let changed = w.store.0.borrow().clone() != post.kv;
                        if o.ok || changed {
                            out.viol(
                                format!("C09:unauthorised-accepted:{}:{}:{}", c.contract, c.variant, sender_kind(w, &roles, sname, &c.allowed)),
                                format!("{} is not allowed to call {}::{} (allowed {:?}) yet naming itself in {} ok={} store changed={} ", sname, c.contract, c.variant, allowed, m2, o.ok, changed),
                            );
                        }
                    }
                }
            }
        }
        w.restore(&post);
        Some(RSt { snap: post, roles })
    }
}

pub fn replay_roles(params: &Value, actions: &Value) -> Vec<Viol> {
    let model = RoleModel { cfg: from_val(&params["cfg"]), targets: params["targets"].as_u64().unwrap_or(1) as usize };
    let acts: Vec<RAct> = from_val(actions);
    let mut ctx = model.make_ctx();
    let mut s = model.initial(&mut ctx);
    let mut all = vec![];
    for (i, a) in acts.iter().enumerate() {
        let mut out = StepOut::default();
        let ns = model.step(&mut ctx, &s, a, &mut out);
        println!("step {:2}: {:?}", i, a);
        for v in &out.viols {
            println!("          VIOLATES {} :: {}", v.sig, v.detail);
        }
        all.extend(out.viols);
        match ns {
            Some(ns) => s = ns,
            None => break,
        }
    }
    all
}

pub fn run_c09(tier: Tier) -> i32 {
    let mut run = Run::new("C09", tier.clone());
    run.rule = "role states: every sequence of role transfers (8 roles: vAMM owner / margin engine / insurance fund, engine owner, pauser, insurance-fund owner, fee-pool owner, feed owner; to fresh accounts and back), pause toggles and vAMM open toggles up to the depth bound; in every role state every execute variant of all five contracts (canonical valid argument) x every sender (current and previous holders of every role, deployer, engine / insurance-fund / vAMM contract addresses, a trader, a stranger) is executed on a copy; non-trivial = a (variant, sender) evaluation of a privileged variant".into();
    run.nontrivial = vec!["c09:role-holder-evaluations".into(), "c09:non-holder-evaluations".into()];
    // self-check: the harness's case list covers every declared execute variant
    let decl = declared_variants();
    let cfg = Cfg { cw20: true, n_vamms: 2, extra_unregistered: true, real_feed: true, ..Cfg::default() };
    {
        let mut w = World::new(&cfg);
        setup(&mut w);
        let cs = cases(&w);
        for (contract, names) in &decl {
            let have: BTreeSet<String> = cs.iter().filter(|c| c.contract == *contract).map(|c| c.variant.to_string()).collect();
            if &have != names {
                // a variant the harness has no canonical message for cannot be exercised; say so loudly
                // in the run and in the evidence instead of pretending coverage
                let missing: Vec<&String> = names.difference(&have).collect();
                let stale: Vec<&String> = have.difference(names).collect();
                eprintln!("WARNING: C09 case list for {} differs from the declared execute variants: not covered {:?}, no longer declared {:?}", contract, missing, stale);
                run.caps.push(format!("{}: execute variants not covered by the call matrix: {:?}", contract, missing));
                run.exhaustive = false;
            }
        }
    }
    run.tag("c09:declared-execute-variants", decl.values().map(|s| s.len() as u64).sum());
    let m = RoleModel { cfg: cfg.clone(), targets: tier.pick(1, 2) };
    run.explore("role states x call matrix", json!({"cfg": to_val(&cfg), "targets": m.targets}), &m, &[vec![]], &Limits::new(tier.pick(3, 3)));
    run.finish()
}
