//! C14 (pause / closed / unregistered / registry / shutdown) and C20 (caps, configuration bounds).
use margined_perp::margined_insurance_fund::{
    AllVammResponse, AllVammStatusResponse, QueryMsg as IfQuery, VammResponse,
};
use serde_json::Value;

use crate::acts::*;
use crate::engmodel::*;
use crate::evidence::*;
use crate::explorer::*;
use crate::props::eng::err_class;
use crate::props::engprops::*;
use crate::world::*;

fn all_vamms(w: &World) -> Vec<cosmwasm_std::Addr> {
    let mut all = w.vamms.clone();
    if let Some(x) = &w.unregistered {
        all.push(x.clone());
    }
    if let Some(x) = &w.vamm7 {
        all.push(x.clone());
    }
    all
}

fn registry(w: &World) -> Vec<String> {
    w.q::<AllVammResponse, _>(&w.ifund, &IfQuery::GetAllVamm { limit: None })
        .map(|r| r.vamm_list.iter().map(|a| a.to_string()).collect())
        .unwrap_or_default()
}

fn is_paused(w: &World) -> bool {
    // the engine does not expose the pause flag in a query; read the raw state record
    let mut k = contract_prefix(w.engine.as_str());
    k.extend(len_prefixed(b"state"));
    let m = w.store.0.borrow();
    m.get(&k)
        .and_then(|v| serde_json::from_slice::<Value>(v).ok())
        .and_then(|j| j["pause"].as_bool())
        .unwrap_or(false)
}

/// holder of a position on vAMM index v (alice preferred), if any
fn holder(w: &World, va: &cosmwasm_std::Addr) -> Option<&'static str> {
    T3.iter()
        .copied()
        .find(|t| w.pos_at(va, t).map(|p| !p.size.is_zero()).unwrap_or(false))
}

/// reference registry kept by the harness: addresses whose AddVamm by the owner succeeded and that
/// were not removed since
fn mon_registry(mon: &Value, w: &World) -> Vec<String> {
    match mon["reg"].as_array() {
        Some(a) => a.iter().filter_map(|x| x.as_str().map(|s| s.to_string())).collect(),
        None => w.vamms.iter().map(|v| v.to_string()).collect(),
    }
}

fn step_c14(m: &EngModel, w: &mut World, s: &EngSt, a: &Act, out: &mut StepOut) -> Option<EngSt> {
    let _ = m;
    w.restore(&s.snap);
    let pre_reg = registry(w);
    let mut ref_reg = mon_registry(&s.mon, w);
    let o = apply(w, a);
    if o.ok {
        match a {
            Act::AddVamm { v, .. } => {
                let va = vamm_addr(w, *v).to_string();
                if !ref_reg.contains(&va) {
                    ref_reg.push(va);
                }
            }
            Act::RemoveVamm { v, .. } => {
                let va = vamm_addr(w, *v).to_string();
                ref_reg.retain(|x| x != &va);
            }
            _ => {}
        }
    }
    ref_reg.sort();
    out.executions += 1;
    out.tag(format!("outcome:{}:{}", a.kind(), if o.ok { "ok" } else { "err" }));
    let post = w.snapshot();
    let vs = all_vamms(w);
    // --- shutdown clause
    if let Act::Shutdown { by } = a {
        if by == "owner" {
            out.tag("c14:owner-shutdown-calls");
            let reg = registry(w);
            let still_open: Vec<&String> = reg
                .iter()
                .filter(|v| w.vstate_at(&cosmwasm_std::Addr::unchecked(v.as_str())).open)
                .collect();
            // the fund can close a vAMM it owns or that names it as its insurance fund; a registered vAMM over which
            // it has neither authority cannot be closed by it at all (a deployment error, outside the statement)
            let fund = w.ifund.to_string();
            let has_authority = |v: &String| -> bool {
                let a = cosmwasm_std::Addr::unchecked(v.as_str());
                let names_fund = w.q::<margined_perp::margined_vamm::ConfigResponse, _>(&a, &margined_perp::margined_vamm::QueryMsg::Config {}).map(|c| c.insurance_fund.to_string() == fund).unwrap_or(false);
                let owned = w.q::<margined_perp::margined_vamm::OwnerResponse, _>(&a, &margined_perp::margined_vamm::QueryMsg::GetOwner {}).map(|o| o.owner.to_string() == fund).unwrap_or(false);
                names_fund || owned
            };
            if reg.iter().any(|v| !has_authority(v)) {
                out.tag("c14:shutdown-with-a-vamm-outside-the-funds-authority");
            } else if !still_open.is_empty() {
                let closed_before = pre_reg.len() - {
                    // how many registered vAMMs were open before the call
                    let post_now = w.snapshot();
                    w.restore(&s.snap);
                    let n = pre_reg
                        .iter()
                        .filter(|v| w.vstate_at(&cosmwasm_std::Addr::unchecked(v.as_str())).open)
                        .count();
                    w.restore(&post_now);
                    n
                };
                out.viol(
                    format!(
                        "C14:shutdown-leaves-vamm-open:{}",
                        if closed_before > 0 && !o.ok { "some-vamm-already-closed" } else { "other" }
                    ),
                    format!("after ShutdownVamms by the owner (ok={}, {}) registered vAMMs {:?} are still open", o.ok, o.err, still_open),
                );
            }
        }
    }
    // --- registry clauses
    let reg = registry(w);
    {
        let mut sorted = reg.clone();
        sorted.sort();
        if sorted != ref_reg {
            out.viol(
                format!("C14:registry-differs-from-accepted-changes:{}", a.kind()),
                format!("registry {:?} but the accepted AddVamm/RemoveVamm calls leave {:?} (after {:?})", reg, ref_reg, a),
            );
        }
    }
    let mut d = reg.clone();
    d.sort();
    d.dedup();
    if d.len() != reg.len() {
        out.viol("C14:registry-duplicate", format!("{:?} after {:?}", reg, a));
    }
    if reg.len() > 3 {
        out.viol("C14:registry-over-capacity", format!("{:?} after {:?}", reg, a));
    }
    for v in &vs {
        let isv = w
            .q::<VammResponse, _>(&w.ifund, &IfQuery::IsVamm { vamm: v.to_string() })
            .map(|r| r.is_vamm)
            .unwrap_or(false);
        if isv != reg.contains(&v.to_string()) {
            out.viol("C14:membership-query-disagrees", format!("IsVamm({}) = {} but registry {:?}", v, isv, reg));
        }
    }
    if let Ok(st) = w.q::<AllVammStatusResponse, _>(&w.ifund, &IfQuery::GetAllVammStatus { limit: None }) {
        for (v, open) in st.vamm_list_status {
            if w.vstate_at(&v).open != open {
                out.viol("C14:status-query-disagrees", format!("{} reported open={} ", v, open));
            }
        }
    }
    // --- every engine operation on every vAMM in this admin state
    let paused = is_paused(w);
    for (vi, va) in vs.iter().enumerate() {
        if Some(va) == w.vamm7.as_ref() {
            continue;
        }
        let open = w.vstate_at(va).open;
        let registered = ref_reg.contains(&va.to_string());
        let h = holder(w, va).unwrap_or("alice");
        let ops: Vec<Act> = vec![
            Act::Open { t: "carol".into(), v: vi, buy: true, margin: SIZE_S.0, lev: SIZE_S.1, limit: 0 },
            // every shape of OpenPosition by a trader who holds a position here: increase, reduce, unwind / reverse
            Act::Open { t: h.into(), v: vi, buy: true, margin: 2 * D, lev: D, limit: 0 },
            Act::Open { t: h.into(), v: vi, buy: false, margin: 2 * D, lev: D, limit: 0 },
            Act::Open { t: h.into(), v: vi, buy: true, margin: SIZE_L.0, lev: SIZE_L.1, limit: 0 },
            Act::Open { t: h.into(), v: vi, buy: false, margin: 40 * D, lev: 10 * D, limit: 0 },
            Act::Close { t: h.into(), v: vi, limit: 0 },
            Act::Dep { t: h.into(), v: vi, amt: 2 * D },
            Act::Wd { t: h.into(), v: vi, amt: 1 },
            Act::Liq { by: "liq".into(), t: h.into(), v: vi, limit: 0 },
            Act::Fund { by: "stranger".into(), v: vi },
        ];
        for op in ops {
            w.restore(&post);
            let r = apply(w, &op);
            out.executions += 1;
            let changed = w.store.0.borrow().clone() != post.kv;
            let kind = op.kind();
            if !paused && open && registered {
                out.tag(format!("c14:unblocked:{}:{}", kind, if r.ok { "ok" } else { "err" }));
            }
            if paused && matches!(kind, "open" | "close" | "deposit" | "withdraw") {
                out.tag("c14:blocked-evaluations");
                if r.ok || changed {
                    out.viol(format!("C14:paused-engine-accepted:{}", kind), format!("{:?} ok={} store changed={} while paused", op, r.ok, changed));
                }
            }
            if !open && matches!(kind, "open" | "close" | "liquidate" | "withdraw" | "pay_funding") {
                out.tag("c14:blocked-evaluations");
                if r.ok || changed {
                    out.viol(format!("C14:closed-vamm-accepted:{}", kind), format!("{:?} ok={} on closed vAMM {}", op, r.ok, va));
                }
            }
            if !registered && matches!(kind, "open" | "liquidate" | "withdraw" | "pay_funding") {
                out.tag("c14:blocked-evaluations");
                if r.ok || changed {
                    out.viol(format!("C14:unregistered-vamm-accepted:{}", kind), format!("{:?} ok={} on unregistered vAMM {}", op, r.ok, va));
                }
            }
            if paused && matches!(kind, "liquidate" | "pay_funding") {
                // same result and same post-state as in the un-paused twin
                let unp = Act::SetPause { by: "owner".into(), pause: false };
                let a_ok = r.ok;
                let _ = apply(w, &unp);
                let a_store = w.store.0.borrow().clone();
                w.restore(&post);
                let _ = apply(w, &unp);
                let rb = apply(w, &op);
                out.executions += 3;
                let b_store = w.store.0.borrow().clone();
                out.tag(format!("c14:pause-twin-evaluations:{}", if rb.ok { "ok" } else { "err" }));
                if a_ok != rb.ok || a_store != b_store {
                    out.viol(
                        format!("C14:pause-changes-{}", kind),
                        format!("{:?}: paused ok={} ({}) un-paused ok={} ({}) stores equal={}", op, a_ok, err_class(&r.err), rb.ok, err_class(&rb.err), a_store == b_store),
                    );
                }
            }
        }
    }
    w.restore(&post);
    Some(EngSt { snap: post, mon: serde_json::json!({ "reg": ref_reg }) })
}

pub fn run_c14(tier: Tier) -> i32 {
    let mut run = Run::new("C14", tier.clone());
    run.rule = "admin states: every sequence over {SetPause(t/f), SetOpen(v,t/f) x4 vAMMs, AddVamm x5 (3 registered, 1 unregistered, 1 with 7 decimals), RemoveVamm x4, ShutdownVamms} up to the depth bound from seeds with live positions on every registered vAMM and funding due; in every reached admin state every engine operation (open, close, deposit, withdraw, liquidate, pay funding) is executed on every vAMM on a copy, and the paused runs of Liquidate/PayFunding are compared with the un-paused twin; non-trivial = an operation evaluated in a paused/closed/unregistered condition".into();
    run.nontrivial = vec!["c14:blocked-evaluations".into(), "c14:pause-twin-evaluations*".into(), "c14:owner-shutdown-calls".into()];
    let cfg = Cfg { n_vamms: 3, extra_unregistered: true, extra_7dec: true, plr: 0, ..Cfg::default() };
    let mut alpha = vec![Act::Note("probe".into())];
    for p in [true, false] {
        alpha.push(Act::SetPause { by: "owner".into(), pause: p });
    }
    for v in 0..4 {
        for o in [true, false] {
            alpha.push(Act::SetOpen { by: "owner".into(), v, open: o });
        }
        alpha.push(Act::RemoveVamm { by: "owner".into(), v });
    }
    for v in 0..5 {
        alpha.push(Act::AddVamm { by: "owner".into(), v });
    }
    alpha.push(Act::Shutdown { by: "owner".into() });
    // funding settlements as transitions: the engine then holds funding history for the vAMM
    for v in 0..3 {
        alpha.push(Act::Fund { by: "stranger".into(), v });
    }
    let seed = vec![
        Act::Open { t: "alice".into(), v: 0, buy: true, margin: SIZE_M.0, lev: SIZE_M.1, limit: 0 },
        Act::Open { t: "bob".into(), v: 1, buy: false, margin: SIZE_M.0, lev: SIZE_M.1, limit: 0 },
        Act::Open { t: "alice".into(), v: 2, buy: true, margin: SIZE_S.0, lev: SIZE_S.1, limit: 0 },
        Act::blk(15),
        // make alice on vAMM 0 liquidatable
        Act::Open { t: "bob".into(), v: 0, buy: false, margin: 40 * D, lev: 10 * D, limit: 0 },
        Act::blk(3900),
        px_at_spot(),
    ];
    let depth = tier.pick(4, 5);
    // vAMM 1 handed over to the fund as its owner and then configured (by the fund) to name another insurance fund:
    // the fund keeps its authority to close it
    let mut seed_owned = seed.clone();
    seed_owned.push(Act::VammAdmin { by: "owner".into(), v: 1, owner: Some("@ifund".into()), ifund: None });
    seed_owned.push(Act::VammAdmin { by: "@ifund".into(), v: 1, owner: None, ifund: Some("other_ifund".into()) });
    let mut e = Exp::new("admin states", cfg.clone(), alpha.clone(), vec![seed.clone()], depth);
    e.traders = T3.to_vec();
    let mut exps = vec![e];
    {
        let mut e = Exp::new("admin states, a vAMM owned by the fund names another fund", cfg.clone(), alpha.clone(), vec![seed_owned], depth - 1);
        e.traders = T3.to_vec();
        exps.push(e);
    }
    if tier == Tier::Thorough {
        let mut c2 = cfg.clone();
        c2.cw20 = false;
        c2.plr = 250_000;
        exps.push(Exp::new("admin states", c2, alpha, vec![seed], 3));
    }
    run_exps(&mut run, step_c14, exps, |_| {});
    run.finish()
}

pub fn oracle_c14() -> OracleFnPtr {
    step_c14
}

// ------------------------------------------------------------------------------------------ C20
fn check_config_bounds(w: &World, a: &Act, out: &mut StepOut) {
    let ec = w.eng_cfg();
    let dd = ec.decimals.u128();
    let ratios = [
        ("initial_margin_ratio", ec.initial_margin_ratio.u128()),
        ("maintenance_margin_ratio", ec.maintenance_margin_ratio.u128()),
        ("liquidation_fee", ec.liquidation_fee.u128()),
        ("partial_liquidation_ratio", ec.partial_liquidation_ratio.u128()),
    ];
    for (n, r) in ratios {
        if r > dd {
            out.viol(format!("C20:ratio-out-of-range:{}", n), format!("{} = {} > {} after {:?}", n, r, dd, a));
        }
    }
    if ec.maintenance_margin_ratio > ec.initial_margin_ratio {
        out.viol("C20:maintenance-above-initial", format!("maintenance {} > initial {} after {:?}", ec.maintenance_margin_ratio, ec.initial_margin_ratio, a));
    }
    for va in all_vamms(w) {
        let vc: margined_perp::margined_vamm::ConfigResponse = w.q(&va, &margined_perp::margined_vamm::QueryMsg::Config {}).unwrap();
        let vd = vc.decimals.u128();
        for (n, r) in [("toll_ratio", vc.toll_ratio.u128()), ("spread_ratio", vc.spread_ratio.u128()), ("fluctuation_limit_ratio", vc.fluctuation_limit_ratio.u128())] {
            if r > vd {
                out.viol(format!("C20:ratio-out-of-range:{}", n), format!("{} = {} > {} on {} after {:?}", n, r, vd, va, a));
            }
        }
        if vc.spot_price_twap_interval < 60 || vc.spot_price_twap_interval > 604_800 {
            out.viol("C20:twap-interval-out-of-range", format!("{} on {} after {:?}", vc.spot_price_twap_interval, va, a));
        }
        if registry(w).contains(&va.to_string()) && vd != dd {
            out.viol("C20:registered-vamm-with-foreign-decimals", format!("{} has decimals {} engine {}", va, vd, dd));
        }
    }
}

fn step_c20_cfg(m: &EngModel, w: &mut World, s: &EngSt, a: &Act, out: &mut StepOut) -> Option<EngSt> {
    let _ = m;
    w.restore(&s.snap);
    let o = apply(w, a);
    out.executions += 1;
    out.tag(format!("outcome:{}:{}", a.kind(), if o.ok { "ok" } else { "err" }));
    if o.ok {
        out.tag("c20:accepted-config-updates");
    } else {
        out.tag("c20:rejected-config-updates");
    }
    check_config_bounds(w, a, out);
    Some(EngSt { snap: w.snapshot(), mon: Value::Null })
}

fn step_c20_any(m: &EngModel, w: &mut World, s: &EngSt, a: &Act, out: &mut StepOut) -> Option<EngSt> {
    match a {
        Act::EngConfig { .. } | Act::VammConfig { .. } | Act::AddVamm { .. } | Act::RemoveVamm { .. } => step_c20_cfg(m, w, s, a, out),
        _ => step_c20(m, w, s, a, out),
    }
}

pub fn oracle_c20() -> OracleFnPtr {
    step_c20_any
}

pub fn run_c20(tier: Tier) -> i32 {
    let mut run = Run::new("C20", tier.clone());
    run.rule = "(a) caps: every sequence over trades by a whitelisted and a non-whitelisted trader, cap changes {0, low, high} for both caps, whitelist add/remove, up to the depth bound; (b) configuration: every sequence of engine/vAMM UpdateConfig calls over per-field values {0,1,D/2,D-1,D,D+1}, initial+maintenance pairs, TWAP interval {59,60,3600,604800,604801}, AddVamm of 6- and 7-decimals vAMMs; bounds asserted after every call; non-trivial = a size-increasing trade under a non-zero cap, or an accepted/rejected configuration update".into();
    run.nontrivial = vec!["c20:capped-increase-ok".into(), "c20:rejected-for-cap".into(), "c20:whitelisted-increase-ok".into(), "c20:accepted-config-updates".into(), "c20:rejected-config-updates".into()];
    // (a) caps
    let mut alpha = vec![];
    for t in ["alice", "bob"] {
        for buy in [true, false] {
            for (mg, l) in [SIZE_S, SIZE_L, (2 * D, 1 * D)] {
                alpha.push(Act::Open { t: t.into(), v: 0, buy, margin: mg, lev: l, limit: 0 });
            }
        }
        alpha.push(Act::close(t));
    }
    for oc in [0u128, 150 * D, 700 * D] {
        alpha.push(Act::VammCaps { by: "owner".into(), v: 0, oi_cap: Some(oc), holding_cap: None });
    }
    for hc in [0u128, 3 * D, 12 * D] {
        alpha.push(Act::VammCaps { by: "owner".into(), v: 0, oi_cap: None, holding_cap: Some(hc) });
    }
    alpha.push(Act::Whitelist { by: "owner".into(), who: "alice".into(), add: true });
    alpha.push(Act::Whitelist { by: "owner".into(), who: "alice".into(), add: false });
    alpha.push(Act::blk(15));
    let mut c = Cfg { oi_cap: 150 * D, holding_cap: 3 * D, ..Cfg::default() };
    c.imr = 100_000;
    let seeds = vec![vec![], vec![Act::Whitelist { by: "owner".into(), who: "alice".into(), add: true }]];
    let mut e = Exp::new("caps", c.clone(), alpha.clone(), seeds.clone(), tier.pick(4, 5));
    e.traders = T2.to_vec();
    let mut exps = vec![e];
    if tier == Tier::Thorough {
        let mut cn = c.clone();
        cn.cw20 = false;
        let mut e = Exp::new("caps", cn, alpha, seeds, 4);
        e.traders = T2.to_vec();
        exps.push(e);
    }
    // two markets on one engine: the engine's open interest is the sum over both, each vAMM's cap is held against it
    {
        let mut alpha2 = vec![];
        for t in ["alice", "bob"] {
            for v in 0..2usize {
                for buy in [true, false] {
                    for (mg, l) in [SIZE_S, (2 * D, 1 * D)] {
                        alpha2.push(Act::Open { t: t.into(), v, buy, margin: mg, lev: l, limit: 0 });
                    }
                }
                alpha2.push(Act::Close { t: t.into(), v, limit: 0 });
            }
        }
        for oc in [0u128, 150 * D] {
            alpha2.push(Act::VammCaps { by: "owner".into(), v: 0, oi_cap: Some(oc), holding_cap: None });
            alpha2.push(Act::VammCaps { by: "owner".into(), v: 1, oi_cap: Some(oc), holding_cap: None });
        }
        alpha2.push(Act::blk(15));
        let mut c2 = c.clone();
        c2.n_vamms = 2;
        c2.holding_cap = 0;
        let mut e = Exp::new("caps, two vAMMs", c2, alpha2, vec![vec![]], tier.pick(3, 4));
        e.traders = T2.to_vec();
        exps.push(e);
    }
    crate::props::engprops::push_dec9(&mut exps, 1, false);
    run_exps(&mut run, step_c20_any, exps, |_| {});
    // (b) configuration bounds: at 6 decimals, and at 9 decimals with the same boundary values in raw units
    let mut exps = vec![];
    // instantiate-time settings that no update can change (the vAMM's funding period) are a dimension of the deployment
    for (dec, funding_period) in [(6u8, 3600u64), (9, 3600), (6, 86_400), (6, 30 * 86_400)] {
        let d = 10u128.pow(dec as u32);
        let vals = [0u128, 1, d / 2, d - 1, d, d + 1];
        let mut alpha = vec![];
        for x in vals {
            alpha.push(Act::EngConfig { by: "owner".into(), imr: Some(x), mmr: None, plr: None, lf: None });
            alpha.push(Act::EngConfig { by: "owner".into(), imr: None, mmr: Some(x), plr: None, lf: None });
            alpha.push(Act::EngConfig { by: "owner".into(), imr: None, mmr: None, plr: Some(x), lf: None });
            alpha.push(Act::EngConfig { by: "owner".into(), imr: None, mmr: None, plr: None, lf: Some(x) });
            alpha.push(Act::VammConfig { by: "owner".into(), v: 0, toll: Some(x), spread: None, fluct: None, twap: None });
            alpha.push(Act::VammConfig { by: "owner".into(), v: 0, toll: None, spread: Some(x), fluct: None, twap: None });
            alpha.push(Act::VammConfig { by: "owner".into(), v: 0, toll: None, spread: None, fluct: Some(x), twap: None });
            for y in vals {
                alpha.push(Act::EngConfig { by: "owner".into(), imr: Some(x), mmr: Some(y), plr: None, lf: None });
            }
        }
        // several fields in one message: every subset of two or more fields, all valid or exactly one invalid
        {
            let ok = [d / 2, d / 4, d / 8, d / 16]; // imr, mmr, plr, lf  |  toll, spread, fluct
            let bad = d + 1;
            for mask in 1u32..16 {
                if mask.count_ones() < 2 {
                    continue;
                }
                let fields: Vec<usize> = (0..4).filter(|i| mask & (1 << i) != 0).collect();
                let mut variants: Vec<Option<usize>> = vec![None];
                variants.extend(fields.iter().map(|f| Some(*f)));
                for inv in variants {
                    let val = |i: usize| -> Option<u128> {
                        if mask & (1 << i) == 0 {
                            None
                        } else if inv == Some(i) {
                            Some(bad)
                        } else {
                            Some(ok[i])
                        }
                    };
                    alpha.push(Act::EngConfig { by: "owner".into(), imr: val(0), mmr: val(1), plr: val(2), lf: val(3) });
                    let tw = if mask & 8 == 0 { None } else if inv == Some(3) { Some(59u64) } else { Some(3600u64) };
                    alpha.push(Act::VammConfig { by: "owner".into(), v: 0, toll: val(0), spread: val(1), fluct: val(2), twap: tw });
                }
            }
            alpha.dedup();
        }
        for x in [10 * d, u128::MAX] {
            alpha.push(Act::EngConfig { by: "owner".into(), imr: None, mmr: None, plr: Some(x), lf: None });
            alpha.push(Act::EngConfig { by: "owner".into(), imr: None, mmr: None, plr: None, lf: Some(x) });
            alpha.push(Act::VammConfig { by: "owner".into(), v: 0, toll: Some(x), spread: None, fluct: None, twap: None });
            alpha.push(Act::VammConfig { by: "owner".into(), v: 0, toll: None, spread: None, fluct: Some(x), twap: None });
        }
        for tw in [0u64, 59, 60, 3600, 604_800, 604_801, 14 * 86_400, 30 * 86_400, u64::MAX] {
            alpha.push(Act::VammConfig { by: "owner".into(), v: 0, toll: None, spread: None, fluct: None, twap: Some(tw) });
        }
        for v in 0..3 {
            alpha.push(Act::AddVamm { by: "owner".into(), v });
            alpha.push(Act::RemoveVamm { by: "owner".into(), v });
        }
        let c = Cfg { n_vamms: 1, extra_unregistered: true, extra_7dec: true, dec, funding_period, ..Cfg::default() };
        let mut e = Exp::new("config bounds", c, alpha, vec![vec![]], if funding_period == 3600 { tier.pick(2, 3) } else { 2 });
        e.raw = true;
        exps.push(e);
    }
    run_exps(&mut run, step_c20_any, exps, |_| {});
    run.finish()
}
