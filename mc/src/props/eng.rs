//! Oracles of the engine-level properties, as functions of one observed step.
use std::collections::BTreeMap;

use margined_perp::margined_engine::Position;
use margined_perp::margined_vamm::Direction;

use crate::acts::*;
use crate::explorer::*;
use crate::obs::*;
use crate::taps::Kv;
use crate::world::*;

pub fn err_class(e: &str) -> String {
    let table = [
        ("Cannot Sub", "overflow-sub"),
        ("Cannot Add", "overflow-add"),
        ("Cannot Mul", "overflow-mul"),
        ("Error parsing into type", "response-parse"),
        ("transfer failure", "transfer-failure"),
        ("injected fault", "injected"),
        ("Position is overcollateralized", "overcollateralized"),
        ("Position is undercollateralized", "undercollateralized"),
        ("Position is zero", "position-zero"),
        ("Only one action allowed", "restriction-mode"),
        ("vAMM is not registered", "vamm-unregistered"),
        ("vAMM is not open", "vamm-closed"),
        ("amm is closed", "vamm-closed"),
        ("Margin engine is paused", "paused"),
        ("price is already over fluctuation limit", "already-over-fluctuation"),
        ("price is over fluctuation limit", "over-fluctuation"),
        ("sent funds are", "sent-funds"),
        ("Cannot close position - bad debt", "bad-debt"),
        ("Insufficient margin", "insufficient-margin"),
        ("Insufficient collateral", "insufficient-collateral"),
        ("settle funding called too early", "funding-too-early"),
        ("Leverage must be greater than 1", "leverage-below-one"),
        ("Input must be non-zero", "zero-input"),
        ("open interest exceeds cap", "oi-cap"),
        ("base asset holding exceeds cap", "holding-cap"),
        ("asset amount limit", "slippage-limit"),
        ("No position found", "no-position"),
        ("unauthorized", "unauthorized"),
        ("Divide", "divide-by-zero"),
        ("PANIC", "panic"),
        ("liquidation failure", "swap-failure"),
        ("position failure", "swap-failure"),
        ("funding payment failure", "swap-failure"),
    ];
    for (k, v) in table {
        if e.contains(k) {
            return v.to_string();
        }
    }
    "other".into()
}

/// Every stored position record of the engine, whatever the key layout: any value in the engine's storage that
/// deserialises as a complete `Position` (vamm, trader, direction, size, margin, notional, checkpoint, block). Keyed by
/// the raw storage key, so records under unexpected keys (crafted key collisions) are seen too.
pub fn raw_positions_of(kv: &Kv, engine: &str) -> BTreeMap<Vec<u8>, Vec<u8>> {
    let p = contract_prefix(engine);
    kv.iter()
        .filter(|(k, v)| k.starts_with(&p) && v.first() == Some(&b'{') && parse_pos(v).is_some())
        .map(|(k, v)| (k[p.len()..].to_vec(), v.clone()))
        .collect()
}

pub fn parse_pos(v: &[u8]) -> Option<Position> {
    serde_json::from_slice(v).ok()
}

/// Positions of the world's current state for the sum over traders: the stored records when the storage holds any
/// that parse; otherwise (a storage layout the harness cannot read) the `Position` answers for every wallet the
/// harness knows on every vAMM.
pub fn positions_now(w: &World) -> Vec<Position> {
    let kv = w.store.0.borrow().clone();
    let recs = raw_positions_of(&kv, w.engine.as_str());
    if !recs.is_empty() {
        return recs.values().filter_map(|v| parse_pos(v)).collect();
    }
    let mut out = vec![];
    let n = w.vamms.len() + w.unregistered.is_some() as usize + w.vamm7.is_some() as usize;
    for v in 0..n {
        let va = crate::acts::vamm_addr(w, v);
        for t in WALLETS.iter().copied().chain(["owner", "ice", "bob0", "malice"]) {
            if let Some(p) = w.pos_at(&va, t) {
                out.push(p);
            }
        }
    }
    out
}

/// true when, in the world's current state, the engine's position sizes do not add up to the vAMM's
/// net position for some vAMM (the C02 invariant). Such a state is corrupted by a violation that C02
/// reports at the step that caused it; no check expands it (its successors only repeat the root cause).
pub fn mirror_broken(w: &World) -> bool {
    let mut sums: BTreeMap<String, i128> = BTreeMap::new();
    for p in positions_now(w) {
        *sums.entry(p.vamm.to_string()).or_default() += itoi(&p.size);
    }
    for (vi, va) in w.vamms.iter().enumerate() {
        if *sums.get(va.as_str()).unwrap_or(&0) != itoi(&w.vstate(vi).total_position_size) {
            return true;
        }
    }
    false
}

/// narrow predicate for the known partial-liquidation defect: the slice to liquidate is worth more
/// than the position's whole open notional, so partial_liquidation() takes its quote-denominated branch
pub fn slice_worth_more_than_notional(w: &World, so: &StepObs) -> bool {
    if let Act::Liq { t, v, .. } = &so.act {
        if let Some(p) = &so.pre_t(*v, t).pos {
            let plr = w.live_cfg(*v).plr;
            if plr == 0 || p.size.is_zero() {
                return false;
            }
            let ps = p.size.value.u128() * plr / du();
            // quote for the slice at the pre-state (the world is at the post-state: look at the pre-state)
            let post = w.store.0.borrow().clone();
            *w.store.0.borrow_mut() = so.pre_snap.kv.clone();
            let o = w.out_amount(*v, p.direction.clone(), ps).unwrap_or(0);
            *w.store.0.borrow_mut() = post;
            return o > p.notional.u128();
        }
    }
    false
}

// --------------------------------------------------------------------------------------- C02
pub fn oracle_c02(w: &World, so: &StepObs, out: &mut StepOut) {
    // the world is at the post-state
    let mut sums: BTreeMap<String, i128> = BTreeMap::new();
    let mut n_nonzero = 0;
    for p in positions_now(w) {
        *sums.entry(p.vamm.to_string()).or_default() += itoi(&p.size);
        if !p.size.is_zero() {
            n_nonzero += 1;
        }
    }
    for (vi, va) in w.vamms.iter().enumerate() {
        let tps = itoi(&so.post.vamms[vi].state.total_position_size);
        let sum = *sums.get(va.as_str()).unwrap_or(&0);
        if sum != tps {
            let refine = if so.outcome.ok && slice_worth_more_than_notional(w, so) { ":partial-liquidation-slice-worth-more-than-open-notional" } else { "" };
            out.viol(
                format!(
                    "C02:sum-mismatch:{}:{}{}",
                    so.act.kind(),
                    if so.outcome.ok { "ok" } else { "failed" },
                    refine
                ),
                format!(
                    "vamm{} sum of engine position sizes {} != vAMM total_position_size {} after {:?}",
                    vi, sum, tps, so.act
                ),
            );
        }
    }
    // reference monitor: sizes implied by the swap events of this transaction
    if so.outcome.ok && !so.swaps.is_empty() {
        for (vi, va) in w.vamms.iter().enumerate() {
            let mut delta = 0i128;
            for s in so.swaps.iter().filter(|s| s.vamm == va.as_str()) {
                // swap_input AddToAmm: trader receives base (+); RemoveFromAmm: (-)
                // swap_output AddToAmm: base added to the amm, trader's size falls (-); Remove: (+)
                let add = s.direction == "AddToAmm" || s.direction == "add_to_amm";
                let sign = if s.input_kind == add { 1 } else { -1 };
                delta += sign * s.base as i128;
            }
            let pre_tps = itoi(&so.pre.vamms[vi].state.total_position_size);
            let post_tps = itoi(&so.post.vamms[vi].state.total_position_size);
            if post_tps - pre_tps != delta {
                out.viol(
                    format!("C02:swap-events-disagree:{}", so.act.kind()),
                    format!(
                        "vamm{} net position moved {} but swap events imply {} ({:?})",
                        vi,
                        post_tps - pre_tps,
                        delta,
                        so.swaps
                    ),
                );
            }
        }
        out.tag("c02:tx-with-swaps");
    }
    if n_nonzero >= 2 {
        out.tag("c02:states-with-2+-positions");
    }
}

// --------------------------------------------------------------------------------------- C03
pub fn oracle_c03(w: &World, so: &StepObs, out: &mut StepOut) {
    if !so.act.is_engine_tx() {
        return;
    }
    let pre_sum: u128 = so.pre.balances.values().sum();
    let post_sum: u128 = so.post.balances.values().sum();
    if pre_sum != post_sum {
        out.viol(
            format!("C03:total-changed:{}", so.act.kind()),
            format!("sum of balances {} -> {} by {:?}", pre_sum, post_sum, so.act),
        );
    }
    if so.pre.total_supply != so.post.total_supply {
        out.viol(
            format!("C03:supply-changed:{}", so.act.kind()),
            format!(
                "cw20 total supply {:?} -> {:?}",
                so.pre.total_supply, so.post.total_supply
            ),
        );
    }
    let sender = so.act.sender().unwrap_or("");
    let allowed = [
        sender.to_string(),
        w.engine.to_string(),
        w.ifund.to_string(),
        w.fee_pool.to_string(),
    ];
    let mut moved = false;
    for (a, b0) in &so.pre.balances {
        let b1 = so.post.balances[a];
        if *b0 != b1 {
            moved = true;
            if !allowed.contains(a) {
                out.viol(
                    format!("C03:foreign-balance-changed:{}", so.act.kind()),
                    format!("{} balance {} -> {} in {:?}", a, b0, b1, so.act),
                );
            }
        }
    }
    if moved {
        out.tag("c03:tx-moving-collateral");
    }
    if let Act::Liq { by, t, .. } = &so.act {
        if so.outcome.ok && by != t {
            out.tag("c03:liquidations");
            let d = so.bal_delta(t);
            let recv: u128 = so.xfers.iter().filter(|x| &x.to == t).map(|x| x.amt).sum();
            if d != 0 || recv != 0 {
                out.viol(
                    "C03:liquidated-trader-paid",
                    format!(
                        "liquidated trader {} balance delta {} received {} in {:?}",
                        t, d, recv, so.act
                    ),
                );
            }
        }
    }
}

// --------------------------------------------------------------------------------------- C10
pub fn oracle_c10(w: &World, so: &StepObs, out: &mut StepOut) {
    let pre = raw_positions_of(&so.pre_snap.kv, w.engine.as_str());
    let post = raw_positions_of(&so.post_snap.kv, w.engine.as_str());
    let sender = so.act.sender().unwrap_or("");
    let named = match &so.act {
        Act::Liq { t, .. } => Some(t.as_str()),
        _ => None,
    };
    let mut keys: Vec<&Vec<u8>> = pre.keys().chain(post.keys()).collect();
    keys.sort();
    keys.dedup();
    let mut others = 0;
    for k in keys {
        let a = pre.get(k);
        let b = post.get(k);
        let owner = a
            .or(b)
            .and_then(|v| parse_pos(v))
            .map(|p| p.trader.to_string())
            .unwrap_or_default();
        let excepted = owner == sender || Some(owner.as_str()) == named;
        if !excepted {
            others += 1;
            if a != b {
                out.viol(
                    format!("C10:foreign-position-changed:{}", so.act.kind()),
                    format!(
                        "position of {} changed by {:?}: {:?} -> {:?}",
                        owner,
                        so.act,
                        a.map(|v| String::from_utf8_lossy(v).to_string()),
                        b.map(|v| String::from_utf8_lossy(v).to_string())
                    ),
                );
            }
        }
    }
    if pre.is_empty() && post.is_empty() {
        // a storage layout the harness cannot read: compare the `Position` answers of the observed traders instead
        for ((v, t), a) in so.pre.traders.iter() {
            if t == sender || Some(t.as_str()) == named {
                continue;
            }
            let b = &so.post.traders[&(*v, t.clone())];
            if a.pos.is_some() || b.pos.is_some() {
                others += 1;
            }
            if a.pos != b.pos {
                out.viol(
                    format!("C10:foreign-position-changed:{}", so.act.kind()),
                    format!("position of {} on vamm{} changed by {:?}: {:?} -> {:?}", t, v, so.act, a.pos, b.pos),
                );
            }
        }
    }
    if others > 0 && so.outcome.ok && so.act.is_engine_tx() {
        out.tag("c10:ok-tx-with-foreign-positions");
    }
    // queries never change state: every observation query of the harness plus the remaining query
    // variants of the engine and the insurance fund run on the post-state; the store must be unchanged.
    // Run after every step that changed the store: each reached state is the post-state of such a step.
    if !so.store_unchanged() {
        use margined_perp::margined_engine::{PnlCalcOption, QueryMsg as EQ};
        use margined_perp::margined_insurance_fund::QueryMsg as IQ;
        let before = w.store.0.borrow().clone();
        let _ = observe(w, &["alice", "bob", "carol"]);
        for t in ["alice", "bob", "carol"] {
            let v0 = w.vamms[0].to_string();
            let _: Result<serde_json::Value, String> = Err(String::new());
            let _ = w.q::<Vec<Position>, _>(&w.engine, &EQ::AllPositions { trader: t.into() });
            let _ = w.q::<cosmwasm_std::Uint128, _>(&w.engine, &EQ::BalanceWithFundingPayment { trader: t.into() });
            let _ = w.q::<Position, _>(&w.engine, &EQ::PositionWithFundingPayment { vamm: v0.clone(), trader: t.into() });
            let _ = w.free_collateral(0, t);
            let _ = w.margin_ratio(0, t);
            for o in [PnlCalcOption::SpotPrice, PnlCalcOption::Twap, PnlCalcOption::Oracle] {
                let _ = w.q::<margined_perp::margined_engine::PositionUnrealizedPnlResponse, _>(&w.engine, &EQ::UnrealizedPnl { vamm: v0.clone(), trader: t.into(), calc_option: o });
            }
            let _ = w.q::<bool, _>(&w.engine, &EQ::IsWhitelisted { address: t.into() });
        }
        let _ = w.q::<margined_perp::margined_insurance_fund::AllVammStatusResponse, _>(&w.ifund, &IQ::GetAllVammStatus { limit: None });
        out.tag("c10:query-batches");
        if *w.store.0.borrow() != before {
            out.viol("C10:query-changed-state", format!("the store differs after a batch of queries following {:?}", so.act));
        }
    }
}

/// Reference funding checkpoints kept by the harness (independent of the stored
/// `last_updated_premium_fraction`): cumulative premium fraction at the position's last charging
/// event (own trade, withdrawal, partial close).
pub type CpRef = BTreeMap<String, i128>;
pub fn cp_key(v: usize, t: &str) -> String {
    format!("{}/{}", v, t)
}
pub fn cp_from_mon(mon: &serde_json::Value) -> CpRef {
    let mut m = CpRef::new();
    if let Some(o) = mon["cp"].as_object() {
        for (k, v) in o {
            if let Some(x) = v.as_i64() {
                m.insert(k.clone(), x as i128);
            }
        }
    }
    m
}
pub fn cp_to_mon(m: &CpRef) -> serde_json::Value {
    let mut o = serde_json::Map::new();
    for (k, v) in m {
        o.insert(k.clone(), serde_json::json!(*v as i64));
    }
    serde_json::json!({ "cp": o })
}
/// update of the reference checkpoints by one observed step
pub fn cp_update(cps: &CpRef, so: &StepObs) -> CpRef {
    let mut m = cps.clone();
    if !so.outcome.ok {
        return m;
    }
    match &so.act {
        Act::Open { t, v, .. } | Act::Wd { t, v, .. } | Act::Close { t, v, .. } => {
            match &so.post_t(*v, t).pos {
                Some(p) if !p.size.is_zero() => {
                    m.insert(cp_key(*v, t), so.post.vamms[*v].cum);
                }
                _ => {
                    m.remove(&cp_key(*v, t));
                }
            }
        }
        Act::Liq { t, v, .. } => {
            if so.post_t(*v, t).pos.is_none() {
                m.remove(&cp_key(*v, t));
            }
        }
        _ => {}
    }
    m
}
/// funding owed by the position according to the reference checkpoint (falls back to the stored one)
pub fn owed_ref(p: &Position, cum: i128, cps: &CpRef, v: usize, t: &str) -> i128 {
    match cps.get(&cp_key(v, t)) {
        Some(cp) => tdiv((cum - cp) * size_of(p), di()),
        None => owed_of(p, cum),
    }
}

// --------------------------------------------------------------------------------------- reference position book
/// Reference model of the engine's position records, kept by the harness and updated from public
/// observations only (pre-state vAMM quotes, swap events of the transaction, cumulative premium
/// fraction): what size, margin, open notional and funding checkpoint each position must have after
/// each of its owner's actions. The stored record is compared with it after every such action, and the
/// oracles of C04, C05 and C11 value positions from it rather than from the stored fields.
#[derive(Clone, Debug, serde::Serialize, serde::Deserialize, PartialEq)]
pub struct RefPos {
    pub size: i64,
    pub margin: i64,
    pub notional: i64,
    pub cp: i64,
}
pub type RefBook = BTreeMap<String, RefPos>;
pub fn book_from_mon(mon: &serde_json::Value) -> RefBook {
    serde_json::from_value(mon["book"].clone()).unwrap_or_default()
}
pub fn book_to_mon(b: &RefBook) -> serde_json::Value {
    serde_json::json!({ "book": b })
}
/// the stored position with margin / notional / checkpoint replaced by the reference values
pub fn with_ref(p: &Position, r: Option<&RefPos>) -> Position {
    let mut q = p.clone();
    if let Some(r) = r {
        // within the book's own tolerance the stored figure *is* the reference figure (a unit of rounding must not be
        // amplified by a division by a dust notional); beyond it the reference figure is used and the record
        // comparison reports the difference
        if (p.margin.u128() as i128 - r.margin as i128).abs() > 2 {
            q.margin = cosmwasm_std::Uint128::new(r.margin.max(0) as u128);
        }
        if (p.notional.u128() as i128 - r.notional as i128).abs() > 2 {
            q.notional = cosmwasm_std::Uint128::new(r.notional.max(0) as u128);
        }
        q.last_updated_premium_fraction = if r.cp < 0 {
            margined_common::integer::Integer::new_negative(r.cp.unsigned_abs() as u128)
        } else {
            margined_common::integer::Integer::new_positive(r.cp as u128)
        };
    }
    q
}
pub fn ref_trader(t: &TraderObs, r: Option<&RefPos>) -> TraderObs {
    TraderObs {
        pos: t.pos.as_ref().map(|p| with_ref(p, r)),
        out_spot: t.out_spot,
        out_twap: t.out_twap,
    }
}

/// Margin a plain open / increase adds to the position: what the vault received in the transaction (the fees go to
/// the pools, nothing is paid out on these paths), provided it is one of the two amounts the statements allow for -
/// the margin named in the call or the margin re-derived from the floored notional (they differ by at most one unit
/// per trade, with fractional leverage) - within a unit; otherwise the re-derived amount, so that a booking that
/// follows neither shows up as a difference.
fn margin_paid_in(w: &World, so: &StepObs, rederived: i128, named: i128) -> i128 {
    let got = so.bal_delta(w.engine.as_str());
    if (got - rederived).abs() <= 1 || (got - named).abs() <= 1 {
        got
    } else {
        rederived
    }
}

/// Advance the book by one observed step and compare the stored record of the acting trader with it.
pub fn book_update(book: &RefBook, w: &World, so: &StepObs, out: &mut StepOut, prop: &str) -> RefBook {
    let mut b = book.clone();
    if !so.outcome.ok {
        return b;
    }
    let d = di();
    let resync = |b: &mut RefBook, k: &str, p: &Option<Position>| match p {
        Some(p) => {
            b.insert(k.to_string(), RefPos { size: size_of(p) as i64, margin: p.margin.u128() as i64, notional: p.notional.u128() as i64, cp: itoi(&p.last_updated_premium_fraction) as i64 });
        }
        None => {
            b.remove(k);
        }
    };
    let mut check: Option<(usize, String)> = None;
    match &so.act {
        Act::Open { t, v, buy, margin, lev, .. } => {
            let k = cp_key(*v, t);
            let va = w.vamms.get(*v).map(|a| a.to_string()).unwrap_or_default();
            let sw: Vec<&SwapEv> = so.swaps.iter().filter(|s| s.vamm == va).collect();
            let cum0 = so.pre.vamms[*v].cum;
            let cum1 = so.post.vamms[*v].cum as i64;
            let n = (*margin * *lev / du()) as i128;
            let pre = b.get(&k).cloned();
            let p0 = so.pre_t(*v, t);
            let stored_dir_long = p0.pos.as_ref().map(|p| p.direction == Direction::AddToAmm);
            match pre {
                Some(r) if r.size != 0 => {
                    let long = r.size > 0;
                    let owed = tdiv((cum0 - r.cp as i128) * r.size as i128, d);
                    if long == *buy && sw.len() == 1 {
                        // increase
                        let base = sw[0].base as i128;
                        let sm = margin_paid_in(w, so, n * d / *lev as i128, *margin as i128);
                        b.insert(k.clone(), RefPos {
                            size: (r.size as i128 + if long { base } else { -base }) as i64,
                            margin: (r.margin as i128 + sm - owed).max(0) as i64,
                            notional: (r.notional as i128 + n) as i64,
                            cp: cum1,
                        });
                        check = Some((*v, t.clone()));
                    } else if long != *buy && sw.len() == 1 && sw[0].input_kind {
                        // reduce
                        let delta = sw[0].base as i128;
                        let vv = p0.out_spot;
                        let pnl = if long { vv - r.notional as i128 } else { r.notional as i128 - vv };
                        let realized = tdiv(pnl * delta, (r.size as i128).abs());
                        let after = pnl - realized;
                        let notional = if long { vv - n - after } else { after + vv - n };
                        b.insert(k.clone(), RefPos {
                            size: (r.size as i128 + if long { -delta } else { delta }) as i64,
                            margin: (r.margin as i128 + realized - owed).max(0) as i64,
                            notional: notional.abs() as i64,
                            cp: cum1,
                        });
                        check = Some((*v, t.clone()));
                    } else if long != *buy && !sw.is_empty() && !sw[0].input_kind {
                        // reversal: close leg (+ open leg)
                        if sw.len() == 1 {
                            b.insert(k.clone(), RefPos { size: 0, margin: 0, notional: 0, cp: 0 });
                        } else {
                            let rem = sw[1].quote as i128;
                            let base = sw[1].base as i128;
                            b.insert(k.clone(), RefPos {
                                size: (if *buy { base } else { -base }) as i64,
                                margin: (rem * d / *lev as i128) as i64,
                                notional: rem as i64,
                                cp: cum1,
                            });
                        }
                        check = Some((*v, t.clone()));
                    } else {
                        resync(&mut b, &k, &so.post_t(*v, t).pos);
                        out.tag("refbook:resync");
                    }
                }
                Some(r) if r.margin != 0 || stored_dir_long.map(|l| l != *buy).unwrap_or(false) => {
                    // zero-size leftover record carrying margin, or re-opened on the other side: the
                    // engine's path depends on the stored direction of the empty record; not modelled
                    let _ = r;
                    resync(&mut b, &k, &so.post_t(*v, t).pos);
                    out.tag("refbook:resync");
                }
                _ => {
                    // fresh position
                    if sw.len() == 1 {
                        let base = sw[0].base as i128;
                        b.insert(k.clone(), RefPos {
                            size: (if *buy { base } else { -base }) as i64,
                            margin: margin_paid_in(w, so, n * d / *lev as i128, *margin as i128) as i64,
                            notional: n as i64,
                            cp: cum1,
                        });
                        check = Some((*v, t.clone()));
                    } else {
                        resync(&mut b, &k, &so.post_t(*v, t).pos);
                        out.tag("refbook:resync");
                    }
                }
            }
        }
        Act::Close { t, v, .. } => {
            let k = cp_key(*v, t);
            match (&so.post_t(*v, t).pos, b.get(&k).cloned()) {
                (None, _) => {
                    b.remove(&k);
                }
                (Some(_), Some(r)) if r.size != 0 && so.swaps.len() == 1 && so.swaps[0].input_kind => {
                    // partial close: a quote-denominated swap against the position
                    let long = r.size > 0;
                    let cum0 = so.pre.vamms[*v].cum;
                    let owed = tdiv((cum0 - r.cp as i128) * r.size as i128, d);
                    let e = so.swaps[0].quote as i128;
                    let delta = so.swaps[0].base as i128;
                    let vv = so.pre_t(*v, t).out_spot;
                    let pnl = if long { vv - r.notional as i128 } else { r.notional as i128 - vv };
                    let realized = tdiv(pnl * delta, (r.size as i128).abs());
                    let after = pnl - realized;
                    let notional = if long { vv - e - after } else { after + vv - e };
                    b.insert(k.clone(), RefPos {
                        size: (r.size as i128 + if long { -delta } else { delta }) as i64,
                        margin: (r.margin as i128 + realized - owed).max(0) as i64,
                        notional: notional.abs() as i64,
                        cp: so.post.vamms[*v].cum as i64,
                    });
                    check = Some((*v, t.clone()));
                }
                (p, _) => {
                    let p = p.clone();
                    resync(&mut b, &k, &p);
                    out.tag("refbook:resync");
                }
            }
        }
        Act::Dep { t, v, amt } => {
            let k = cp_key(*v, t);
            if let Some(r) = b.get_mut(&k) {
                r.margin += *amt as i64;
                check = Some((*v, t.clone()));
            } else {
                resync(&mut b, &k, &so.post_t(*v, t).pos);
            }
        }
        Act::Wd { t, v, amt } => {
            let k = cp_key(*v, t);
            if let Some(r) = b.get_mut(&k) {
                let cum0 = so.pre.vamms[*v].cum;
                let owed = tdiv((cum0 - r.cp as i128) * r.size as i128, d);
                r.margin = (r.margin as i128 - owed - *amt as i128).max(0) as i64;
                r.cp = so.post.vamms[*v].cum as i64;
                check = Some((*v, t.clone()));
            } else {
                resync(&mut b, &k, &so.post_t(*v, t).pos);
            }
        }
        Act::Liq { t, v, .. } => {
            // full: gone; partial: the property does not fix the bookkeeping of the remainder - resync
            let k = cp_key(*v, t);
            resync(&mut b, &k, &so.post_t(*v, t).pos);
        }
        _ => {}
    }
    if let Some((v, t)) = check {
        let k = cp_key(v, &t);
        out.tag("refbook:records-compared");
        match (&so.post_t(v, &t).pos, b.get(&k)) {
            (Some(p), Some(r)) => {
                let fields = [
                    ("size", size_of(p), r.size as i128, 0i128),
                    ("margin", p.margin.u128() as i128, r.margin as i128, 2),
                    ("open-notional", p.notional.u128() as i128, r.notional as i128, 2),
                    ("funding-checkpoint", itoi(&p.last_updated_premium_fraction), r.cp as i128, 0),
                ];
                for (name, got, exp, tol) in fields {
                    if (got - exp).abs() > tol {
                        out.viol(
                            format!("{}:position-record-differs-from-reference:{}:{}", prop, name, so.act.kind()),
                            format!("after {:?} the stored {} is {} but the reference model gives {} (reference {:?}, stored {:?})", so.act, name, got, exp, r, p),
                        );
                    }
                }
            }
            // an emptied position may be kept as a zero-size record or dropped: both are "no position"
            (None, Some(r)) if r.size == 0 => {
                b.remove(&k);
            }
            (None, Some(r)) => out.viol(
                format!("{}:position-record-differs-from-reference:missing:{}", prop, so.act.kind()),
                format!("after {:?} no record is stored but the reference model has {:?}", so.act, r),
            ),
            _ => {}
        }
    }
    b
}

// --------------------------------------------------------------------------------------- C04
pub fn oracle_c04(w: &World, so: &StepObs, out: &mut StepOut, cps: &CpRef, book: &RefBook) {
    let eng = w.engine.to_string();
    // "funding owed" presupposes that the cumulative premium fraction the positions are charged against records every
    // settlement: a successful PayFunding advances it by the settled fraction, and nothing else moves it
    for v in 0..so.pre.vamms.len().min(so.post.vamms.len()) {
        let settles_here = matches!(&so.act, Act::Fund { v: fv, .. } if *fv == v) && so.outcome.ok;
        let adv = so.post.vamms[v].cum - so.pre.vamms[v].cum;
        if settles_here {
            if let Some(exp) = expected_fraction(w, so, v) {
                if (adv - exp).abs() > 1 {
                    out.viol("C04:funding-history-differs-from-settlement", format!("vamm{}: cumulative premium fraction advanced by {} in a settlement of {} ({:?})", v, adv, exp, so.act));
                }
            }
        } else if adv != 0 {
            out.viol("C04:funding-history-differs-from-settlement", format!("vamm{}: cumulative premium fraction moved by {} outside a settlement ({:?})", v, adv, so.act));
        }
    }
    if let Act::Close { t, v, .. } = &so.act {
        let p0 = so.pre_t(*v, t);
        if let Some(pp_stored) = &p0.pos {
            // value the position from the reference book, not from the stored fields
            let pp_ref = with_ref(pp_stored, book.get(&cp_key(*v, t)));
            let pp = &pp_ref;
            if !pp.size.is_zero() && p0.out_spot >= 0 {
                let cum = so.pre.vamms[*v].cum;
                let pnl = pnl_of(pp, p0.out_spot);
                let owed = owed_ref(pp, cum, cps, *v, t);
                let eq = pp.margin.u128() as i128 + pnl - owed;
                if so.outcome.ok {
                    let post = so.post_t(*v, t);
                    match &post.pos {
                        None => {
                            out.tag("c04:whole-close-ok");
                            if owed != 0 {
                                out.tag("c04:whole-close-with-funding-owed");
                            }
                            if pnl < 0 {
                                out.tag("c04:whole-close-at-loss");
                            }
                            // quote actually exchanged
                            let exch = so
                                .swaps
                                .first()
                                .map(|s| s.quote as i128)
                                .unwrap_or(p0.out_spot);
                            let eq_x = pp.margin.u128() as i128 + pnl_of(pp, exch) - owed;
                            let paid: i128 = so
                                .xfers
                                .iter()
                                .filter(|x| !x.pulled && x.from == eng && &x.to == t)
                                .map(|x| x.amt as i128)
                                .sum();
                            if eq_x < -1 {
                                out.viol(
                                    "C04:whole-close-with-negative-equity-succeeded",
                                    format!("equity {} (margin {} pnl {} owed {}) yet {:?} succeeded", eq_x, pp.margin, pnl, owed, so.act),
                                );
                            } else if (paid - eq_x.max(0)).abs() > 1 {
                                out.viol(
                                    "C04:whole-close-payout",
                                    format!("paid {} expected equity {} (margin {} pnl {} owed {}) in {:?}", paid, eq_x, pp.margin, pnl_of(pp, exch), owed, so.act),
                                );
                            }
                        }
                        Some(p1) => {
                            out.tag("c04:partial-close-ok");
                            // the part that was closed
                            let closed = (size_of(pp) - size_of(p1)).abs();
                            let realized = tdiv(pnl * closed, size_of(pp).abs());
                            let rem = pp.margin.u128() as i128 + realized - owed;
                            if rem < -1 {
                                out.viol(
                                    "C04:partial-close-with-negative-equity-succeeded",
                                    format!("margin {} realized {} owed {} -> {} yet {:?} succeeded", pp.margin, realized, owed, rem, so.act),
                                );
                            }
                            if p1.size.is_zero() {
                                out.viol(
                                    "C04:zero-position-record-left",
                                    format!("{:?} left a zero-size position record", so.act),
                                );
                            }
                        }
                    }
                } else if eq >= 0 {
                    out.tag("c04:close-failed-with-nonneg-equity");
                } else {
                    out.tag("c04:close-rejected-negative-equity");
                }
            }
        }
    }
    if matches!(
        so.act,
        Act::Open { .. } | Act::Close { .. } | Act::Dep { .. } | Act::Wd { .. }
    ) {
        let ifu = w.ifund.to_string();
        let dif = -so.bal_delta(&ifu);
        let dpb = so.post.prepaid_bad_debt as i128 - so.pre.prepaid_bad_debt as i128;
        if dif > 0 {
            out.tag("c04:trader-tx-lowering-insurance-fund");
        }
        if dif > dpb {
            out.viol(
                format!("C04:insurance-fund-drained:{}", so.act.kind()),
                format!(
                    "insurance fund fell by {} but prepaid bad debt rose by {} in {:?}",
                    dif, dpb, so.act
                ),
            );
        }
    }
}

// --------------------------------------------------------------------------------------- C05
pub fn ref_free_collateral(t: &TraderObs, v: &VammObs, imr: u128) -> Option<i128> {
    ref_free_collateral_alts(t, v, imr).map(|a| a[0])
}

/// one value, or two when the spot and TWAP PnL tie in magnitude (see `ref_ratio_alts`)
pub fn ref_free_collateral_alts(t: &TraderObs, v: &VammObs, imr: u128) -> Option<Vec<i128>> {
    let p = t.pos.as_ref()?;
    if t.out_spot < 0 || t.out_twap < 0 {
        return None;
    }
    let owed = owed_of(p, v.cum);
    let margin_f = (p.margin.u128() as i128 - owed).max(0);
    let (ps, pt) = (pnl_of(p, t.out_spot), pnl_of(p, t.out_twap));
    let mut cands = vec![];
    if p.size.is_zero() {
        cands.push((0, 0));
    } else if ps.abs() > pt.abs() {
        cands.push((pt, t.out_twap));
    } else {
        cands.push((ps, t.out_spot));
        if ps.abs() == pt.abs() && (ps != pt || t.out_spot != t.out_twap) {
            cands.push((pt, t.out_twap));
        }
    }
    Some(
        cands
            .into_iter()
            .map(|(pnl, notional)| {
                let min_coll = if pnl > 0 { margin_f } else { margin_f + pnl };
                let req = if size_of(p) >= 0 {
                    p.notional.u128() as i128 * imr as i128 / di()
                } else {
                    notional * imr as i128 / di()
                };
                min_coll - req
            })
            .collect(),
    )
}

fn cfg_fp(w: &World) -> u64 {
    w.cfg.funding_period
}

pub fn oracle_c05(w: &World, so: &StepObs, out: &mut StepOut, pre_book: &RefBook, post_book: &RefBook) {
    let eng = w.engine.to_string();
    let cfg = &w.live_cfg(so.act.vamm_index());
    match &so.act {
        Act::Open { t, v, lev, .. } => {
            let too_low = *lev < du();
            let too_high = *lev > 0 && du() * du() / *lev < cfg.imr;
            if so.outcome.ok {
                if too_low || too_high {
                    out.viol(
                        format!(
                            "C05:leverage-out-of-range-accepted:{}",
                            if too_low { "below-1" } else { "above-1/imr" }
                        ),
                        format!("{:?} succeeded with initial ratio {}", so.act, cfg.imr),
                    );
                }
                let post_stored = so.post_t(*v, t);
                let post_ref = ref_trader(post_stored, post_book.get(&cp_key(*v, t)));
                let post = &post_ref;
                if let Some(p) = &post.pos {
                    if !p.size.is_zero() {
                        if let Some(rs) = ref_ratio_alts(post, &so.post.vamms[*v], false) {
                            out.tag("c05:open-ok-with-position");
                            let r = rs[0];
                            if rs.iter().all(|r| *r < cfg.mmr as i128) {
                                out.viol(
                                    "C05:open-leaves-position-below-maintenance",
                                    format!("margin ratio {} < maintenance {} after {:?}", r, cfg.mmr, so.act),
                                );
                            }
                            match w.margin_ratio(*v, t) {
                                // the statements do not fix the query's last digit
                                Ok(q) if rs.iter().any(|r| (itoi(&q) - r).abs() <= 2) => {}
                                other => out.viol(
                                    "C05:margin-ratio-query-disagrees-with-reference",
                                    format!("reference {} query {:?} after {:?}", r, other.map(|q| q.to_string()), so.act),
                                ),
                            }
                        }
                    }
                }
            } else if too_low || too_high {
                out.tag("c05:open-rejected-leverage");
            }
        }
        Act::Wd { t, v, amt } => {
            let p0o_stored = so.pre_t(*v, t);
            let p0o_ref = ref_trader(p0o_stored, pre_book.get(&cp_key(*v, t)));
            let p0o = &p0o_ref;
            if let Some(p0) = &p0o.pos {
                let owed = owed_of(p0, so.pre.vamms[*v].cum);
                let after = p0.margin.u128() as i128 - owed - *amt as i128;
                if so.outcome.ok {
                    out.tag("c05:withdraw-ok");
                    if owed != 0 {
                        out.tag("c05:withdraw-with-funding-owed");
                    }
                    if after < -1 {
                        out.viol(
                            "C05:withdraw-creating-bad-debt-accepted",
                            format!("margin {} owed {} amount {} in {:?}", p0.margin, owed, amt, so.act),
                        );
                    }
                    let post_stored = so.post_t(*v, t);
                    let post_ref = ref_trader(post_stored, post_book.get(&cp_key(*v, t)));
                    let post = &post_ref;
                    if let Some(p1) = &post_stored.pos {
                        if (p1.margin.u128() as i128 - after.max(0)).abs() > 1 {
                            out.viol(
                                "C05:withdraw-margin-delta",
                                format!("margin {} -> {} for amount {} owed {} in {:?}", p0.margin, p1.margin, amt, owed, so.act),
                            );
                        }
                        if let Some(fcs) = ref_free_collateral_alts(post, &so.post.vamms[*v], cfg.imr) {
                            let fc = fcs[0];
                            if fcs.iter().all(|fc| *fc < -1) {
                                out.viol(
                                    "C05:withdraw-leaves-negative-free-collateral",
                                    format!("reference free collateral {} after {:?}", fc, so.act),
                                );
                            }
                            match w.free_collateral(*v, t) {
                                Ok(q) if itoi(&q) < 0 => out.viol(
                                    "C05:withdraw-leaves-negative-free-collateral",
                                    format!("FreeCollateral query answers {} after {:?}", q, so.act),
                                ),
                                Ok(q) if fcs.iter().any(|fc| (itoi(&q) - fc).abs() <= 2) => {}
                                other => out.viol(
                                    "C05:free-collateral-query-disagrees-with-reference",
                                    format!("reference {} query {:?} after {:?}", fc, other.map(|q| q.to_string()), so.act),
                                ),
                            }
                        }
                    } else {
                        out.viol("C05:withdraw-removed-position", format!("{:?}", so.act));
                    }
                    let got: u128 = so
                        .xfers
                        .iter()
                        .filter(|x| !x.pulled && x.from == eng && &x.to == t)
                        .map(|x| x.amt)
                        .sum();
                    if got != *amt || so.bal_delta(t) != *amt as i128 {
                        out.viol(
                            "C05:withdraw-wallet-amount",
                            format!("wallet got {} (delta {}) for requested {} in {:?}", got, so.bal_delta(t), amt, so.act),
                        );
                    }
                } else if after < 0 {
                    out.tag("c05:withdraw-rejected-bad-debt");
                }
            }
        }
        Act::Dep { t, v, amt } => {
            if so.outcome.ok {
                out.tag("c05:deposit-ok");
                let p0 = so.pre_t(*v, t).pos.clone();
                let p1 = so.post_t(*v, t).pos.clone();
                match (p0, p1) {
                    (Some(p0), Some(p1)) => {
                        if p1.margin.u128() != p0.margin.u128() + *amt {
                            out.viol(
                                "C05:deposit-margin-delta",
                                format!("margin {} -> {} for deposit {} in {:?}", p0.margin, p1.margin, amt, so.act),
                            );
                        }
                    }
                    _ => out.viol(
                        "C05:deposit-without-position",
                        format!("{:?} succeeded without a stored position before and after", so.act),
                    ),
                }
                if so.bal_delta(t) != -(*amt as i128) || so.bal_delta(&eng) != *amt as i128 {
                    out.viol(
                        "C05:deposit-wallet-amount",
                        format!("wallet delta {} vault delta {} for deposit {} in {:?}", so.bal_delta(t), so.bal_delta(&eng), amt, so.act),
                    );
                }
            }
        }
        _ => {}
    }
}

/// C07's stated preconditions other than the insurance fund's balance, for a Liquidate step: reference ratio below
/// maintenance, vAMM open and registered, closing trade fillable, spot inside the per-block band, liquidation fee
/// non-zero, and the caller's quote limit satisfied by the trade the liquidation makes (whole position or slice).
pub fn c07_preconditions_but_fund(w: &World, so: &StepObs) -> bool {
    let cfg = &w.live_cfg(so.act.vamm_index());
    if let Act::Liq { t, v, limit, .. } = &so.act {
        let p0 = so.pre_t(*v, t);
        let vo = &so.pre.vamms[*v];
        let pp = match &p0.pos {
            Some(p) if !p.size.is_zero() => p,
            _ => return false,
        };
        let rs = match ref_ratio_alts(p0, vo, true) {
            Some(r) => r,
            None => return false,
        };
        let r = rs[0];
        let registered_open = vo.registered && vo.state.open;
        let fill_ok = p0.out_spot >= 0;
        let band_ok = match vo.band {
            None => true,
            Some((lo, hi)) => vo.spot >= lo && vo.spot <= hi,
        };
        let fee_ok = cfg.liq_fee != 0;
        let limit_ok = *limit == 0 || {
            let partial = cfg.plr != 0 && r.abs() > cfg.liq_fee as i128;
            let fill = if partial {
                w.out_amount(*v, pp.direction.clone(), pp.size.value.u128() * cfg.plr / du()).unwrap_or(0)
            } else {
                p0.out_spot.max(0) as u128
            };
            if size_of(pp) > 0 { fill >= *limit } else { fill <= *limit }
        };
        // under-margined under every reading of the ratio rule (they differ only when spot and TWAP PnL tie in magnitude)
        rs.iter().all(|r| *r < cfg.mmr as i128) && registered_open && fill_ok && band_ok && fee_ok && limit_ok
    } else {
        false
    }
}

// --------------------------------------------------------------------------------------- C06 / C07
pub fn oracle_c06_c07(w: &World, so: &StepObs, out: &mut StepOut, do6: bool, do7: bool) {
    let cfg = &w.live_cfg(so.act.vamm_index());
    let eng = w.engine.to_string();
    let ifu = w.ifund.to_string();
    if let Act::Liq { by, t, v, limit } = &so.act {
        let p0 = so.pre_t(*v, t);
        let vo = &so.pre.vamms[*v];
        let pp = match &p0.pos {
            Some(p) if !p.size.is_zero() => p,
            _ => return,
        };
        let rs = match ref_ratio_alts(p0, vo, true) {
            Some(r) => r,
            None => return,
        };
        let r = rs[0];
        let cum = vo.cum;
        let owed = owed_of(pp, cum);
        // the 15-minute TWAP leg of the ratio, against a reference computed from the vAMM's raw reserve snapshots
        // (the world is at the post-state: look at the pre-state)
        if do6 && p0.out_twap >= 0 {
            let post = w.store.0.borrow().clone();
            *w.store.0.borrow_mut() = so.pre_snap.kv.clone();
            let r15 = w.ref_out_twap(*v, &pp.direction, pp.size.value.u128(), 900);
            *w.store.0.borrow_mut() = post;
            if let Some(r15) = r15 {
                out.tag("c06:twap-leg-compared-with-reference");
                let tol = 4 + r15 / 1_000_000_000;
                if (p0.out_twap as u128).abs_diff(r15) > tol {
                    out.viol(
                        "C06:twap-leg-differs-from-fifteen-minute-reference",
                        format!("OutputTwap for {}'s position is {} but the 15-minute time-weighted quote over the reserve snapshots is {} ({:?})", t, p0.out_twap, r15, so.act),
                    );
                }
            }
        }
        if so.outcome.ok && !do6 {
            // C07 only: nothing to assert on a liquidation that went through
        } else if so.outcome.ok {
            if rs.iter().all(|r| *r > cfg.mmr as i128) {
                out.viol(
                    "C06:liquidated-above-maintenance",
                    format!("reference ratio {} > maintenance {} yet {:?} succeeded", r, cfg.mmr, so.act),
                );
            }
            let to_trader: u128 = if by != t {
                so.xfers.iter().filter(|x| &x.to == t).map(|x| x.amt).sum()
            } else {
                0
            };
            if to_trader != 0 {
                out.viol("C06:trader-received", format!("trader received {} in {:?}", to_trader, so.act));
            }
            let to_liq: u128 = so
                .xfers
                .iter()
                .filter(|x| x.from == eng && &x.to == by)
                .map(|x| x.amt)
                .sum();
            let to_if: u128 = so
                .xfers
                .iter()
                .filter(|x| x.from == eng && x.to == ifu)
                .map(|x| x.amt)
                .sum();
            let other_out: u128 = so
                .xfers
                .iter()
                .filter(|x| x.from == eng && &x.to != by && x.to != ifu)
                .map(|x| x.amt)
                .sum();
            if other_out != 0 {
                out.viol("C06:vault-paid-third-party", format!("{} left the vault to others in {:?}", other_out, so.act));
            }
            let exch = so.swaps.first().map(|s| s.quote as i128).unwrap_or(-1);
            match &so.post_t(*v, t).pos {
                None => {
                    out.tag("c06:full-liquidation");
                    let o = if exch >= 0 { exch } else { p0.out_spot };
                    let fee = o * cfg.liq_fee as i128 / di() / 2;
                    if to_liq as i128 != fee {
                        out.viol(
                            "C06:full-liquidation-fee",
                            format!("liquidator got {} expected {} (exchanged {}) in {:?}", to_liq, fee, o, so.act),
                        );
                    }
                    let rem = pp.margin.u128() as i128 + pnl_of(pp, o) - owed - fee;
                    if rem > 0 {
                        out.tag("c06:full-liquidation-with-remaining-margin");
                    } else {
                        out.tag("c06:full-liquidation-with-bad-debt");
                    }
                    if (to_if as i128 - rem.max(0)).abs() > 1 {
                        out.viol(
                            "C06:full-liquidation-remaining-margin",
                            format!("insurance fund got {} expected {} in {:?}", to_if, rem.max(0), so.act),
                        );
                    }
                }
                Some(p1) => {
                    out.tag("c06:partial-liquidation");
                    let exp = pp.size.value.u128() * cfg.plr / du();
                    let dec = pp.size.value.u128() as i128 - p1.size.value.u128() as i128;
                    let flipped = (size_of(pp) > 0) != (size_of(p1) > 0) && !p1.size.is_zero();
                    // a slice that rounds to zero base units (dust) is still "exactly the configured fraction"; growth is not
                    if dec != exp as i128 || flipped || dec < 0 {
                        out.viol(
                            if slice_worth_more_than_notional(w, so) { "C06:partial-liquidation-size:slice-worth-more-than-open-notional" } else { "C06:partial-liquidation-size" },
                            format!("size {} -> {} expected decrease {} in {:?}", pp.size, p1.size, exp, so.act),
                        );
                    }
                    if exch >= 0 {
                        let half = exch * cfg.liq_fee as i128 / di() / 2;
                        if to_liq as i128 != half || to_if as i128 != half {
                            out.viol(
                                "C06:partial-liquidation-penalty-split",
                                format!("liquidator {} insurance fund {} expected {} each (exchanged {}) in {:?}", to_liq, to_if, half, exch, so.act),
                            );
                        }
                    }
                }
            }
        } else if do7 {
            // C07: all stated preconditions
            let fund_ok = so.pre.balances[&ifu] as i128
                >= pp.notional.u128() as i128 + pp.margin.u128() as i128 + p0.out_spot.max(0);
            let others_ok = c07_preconditions_but_fund(w, so);
            if others_ok && fund_ok {
                let cls = err_class(&so.outcome.err);
                let vault = so.pre.balances[&eng] as i128;
                let rem = pp.margin.u128() as i128 + pnl_of(pp, p0.out_spot) - owed;
                // the partial path is taken when |ratio| > liquidation fee and the partial ratio is non-zero
                let partial_path = cfg.plr != 0 && r.abs() > cfg.liq_fee as i128;
                let partial_out = if partial_path {
                    let ps = pp.size.value.u128() * cfg.plr / du();
                    w.out_amount(*v, pp.direction.clone(), ps).unwrap_or(0)
                } else {
                    0
                };
                let partial_penalty = (partial_out * cfg.liq_fee / du()) as i128;
                // partial_liquidation() switches to a quote-denominated swap when the slice is worth more
                // than the whole open notional
                let swap_input_branch = partial_path && partial_out > pp.notional.u128();
                let spot_pnl = pnl_of(pp, p0.out_spot);
                let refine = match cls.as_str() {
                    "overflow-sub" if cfg.plr != 0 && r < 0 && partial_path && (spot_pnl.abs() * cfg.plr as i128 / di() + partial_penalty > pp.margin.u128() as i128 || swap_input_branch) => "partial-path-negative-ratio",
                    "overflow-sub" if swap_input_branch => "partial-path-slice-worth-more-than-open-notional",
                    "overflow-sub" if partial_path && spot_pnl.abs() * cfg.plr as i128 / di() + partial_penalty > pp.margin.u128() as i128 => "partial-path-spot-pnl-share-plus-penalty-exceeds-margin",
                    "response-parse" if cfg.real_feed => "real-price-feed",
                    // the vault cannot make the queued transfer: reported as the engine's "transfer failure" or, when the
                    // token's own refusal is passed through, as its balance underflow
                    "transfer-failure" | "overflow-sub" | "other" if partial_path && vault < partial_penalty => "partial-path-vault-below-penalty",
                    "transfer-failure" | "overflow-sub" | "other" if !partial_path && vault < rem => "vault-below-remaining-margin",
                    // dust (both repaired, 906a7b7 / 538cd6a; the names only make a regression readable)
                    "transfer-failure" if !partial_path && p0.out_spot.max(0) as u128 * cfg.liq_fee / du() / 2 == 0 => "dust-fee-rounds-to-zero",
                    "panic" if vo.oracle > 0 && tdiv(vo.oracle * pp.size.value.u128() as i128, di()) == 0 => "dust-oracle-notional-zero",
                    _ => "unclassified",
                };
                // the error text only helps to tell causes apart; a refusal whose text the harness does not know
                // ("other") in a situation in which a listed finding is certain to refuse the liquidation is that finding
                let cls = if refine == "partial-path-vault-below-penalty" || refine == "vault-below-remaining-margin" { "transfer-failure".to_string() } else { cls };
                let (cls, refine) = if refine == "unclassified" && cls == "other" {
                    if cfg.real_feed {
                        ("response-parse".to_string(), "real-price-feed")
                    } else if swap_input_branch {
                        ("overflow-sub".to_string(), "partial-path-slice-worth-more-than-open-notional")
                    } else if partial_path && spot_pnl.abs() * cfg.plr as i128 / di() + partial_penalty > pp.margin.u128() as i128 {
                        ("overflow-sub".to_string(), "partial-path-spot-pnl-share-plus-penalty-exceeds-margin")
                    } else if partial_path && vault < partial_penalty {
                        ("transfer-failure".to_string(), "partial-path-vault-below-penalty")
                    } else {
                        (cls, refine)
                    }
                } else {
                    (cls, refine)
                };
                out.viol(
                    format!("C07:liquidation-refused:{}:{}", cls, refine),
                    format!(
                        "reference ratio {} < maintenance {}, vAMM open+registered, fund {} >= bound, yet {:?} failed: {}",
                        r, cfg.mmr, so.pre.balances[&ifu], so.act, so.outcome.err
                    ),
                );
            } else if r < cfg.mmr as i128 {
                out.tag("c07:undermargined-but-precondition-missing");
            }
        }
        if do7 && r < cfg.mmr as i128 {
            out.tag("c07:liquidation-attempts-on-undermargined");
            if r < 0 {
                out.tag("c07:liquidation-attempts-negative-ratio");
            }
            if so.outcome.ok {
                out.tag("c07:undermargined-liquidated-ok");
            }
        }
    }
}

// --------------------------------------------------------------------------------------- C11
pub fn oracle_c11(w: &World, so: &StepObs, out: &mut StepOut, cps: &CpRef) {
    // the cumulative premium fraction of a vAMM moves only in a successful PayFunding on that vAMM
    for v in 0..so.pre.vamms.len().min(so.post.vamms.len()) {
        let settles_here = matches!(&so.act, Act::Fund { v: fv, .. } if *fv == v) && so.outcome.ok;
        if !settles_here && so.pre.vamms[v].cum != so.post.vamms[v].cum {
            out.viol(
                format!("C11:cumulative-fraction-changed-outside-settlement:{}", so.act.kind()),
                format!("vamm{} cumulative premium fraction {} -> {} by {:?}", v, so.pre.vamms[v].cum, so.post.vamms[v].cum, so.act),
            );
        }
    }
    // stored checkpoint of a surviving position equals the current cumulative fraction after every
    // charging event (including the very first trade of a position)
    if so.outcome.ok {
        if let Act::Open { t, v, .. } | Act::Wd { t, v, .. } | Act::Close { t, v, .. } = &so.act {
            if let Some(p1) = &so.post_t(*v, t).pos {
                if !p1.size.is_zero() && itoi(&p1.last_updated_premium_fraction) != so.post.vamms[*v].cum {
                    let fresh = so.pre_t(*v, t).pos.as_ref().map(|p| p.size.is_zero()).unwrap_or(true);
                    out.viol(
                        format!("C11:checkpoint-not-advanced:{}{}", so.act.kind(), if fresh { ":fresh-position" } else { "" }),
                        format!("checkpoint {} != cumulative fraction {} after {:?}", p1.last_updated_premium_fraction, so.post.vamms[*v].cum, so.act),
                    );
                }
            }
        }
    }
    let cfg = &w.live_cfg(so.act.vamm_index());
    let eng = w.engine.to_string();
    let ifu = w.ifund.to_string();
    match &so.act {
        Act::Fund { v, .. } => {
            let vs0 = &so.pre.vamms[*v].state;
            let now = so.pre.now;
            if so.outcome.ok {
                out.tag("c11:settlement-ok");
                if now < vs0.next_funding_time {
                    out.viol(
                        "C11:settled-before-funding-time",
                        format!("now {} < next_funding_time {}", now, vs0.next_funding_time),
                    );
                }
                let vs1 = &so.post.vamms[*v].state;
                if vs1.next_funding_time < now + cfg.funding_period / 2 {
                    out.viol(
                        "C11:next-funding-time-too-soon",
                        format!("next {} < now {} + period/2", vs1.next_funding_time, now),
                    );
                }
                // premium fraction from the TWAPs observable before the call
                // (queried on the pre-state by the caller and passed through tags is awkward; recompute)
                let frac = so.post.vamms[*v].cum - so.pre.vamms[*v].cum;
                if let Some(exp) = expected_fraction(w, so, *v) {
                    if (frac - exp).abs() > 1 {
                        out.viol(
                            "C11:premium-fraction",
                            format!("cumulative fraction advanced by {} expected {}", frac, exp),
                        );
                    }
                }
                let tps = itoi(&vs0.total_position_size);
                let pay = tdiv(tps * frac, di());
                let d_if = so.bal_delta(&ifu);
                let d_eng = so.bal_delta(&eng);
                let vault = so.pre.balances[&eng] as i128;
                let exp_if = if pay > 0 { pay.min(vault) } else { pay };
                if pay != 0 {
                    out.tag("c11:settlement-with-transfer");
                    if pay > vault {
                        out.tag("c11:settlement-capped-at-vault");
                    }
                }
                if (d_if - exp_if).abs() > 1 || d_if != -d_eng {
                    out.viol(
                        "C11:settlement-transfer",
                        format!("insurance fund delta {} vault delta {} expected {} (net position {} fraction {})", d_if, d_eng, exp_if, tps, frac),
                    );
                }
            } else if now >= vs0.next_funding_time {
                out.tag("c11:settlement-failed-though-due");
            } else {
                out.tag("c11:settlement-rejected-early");
            }
        }
        Act::Open { t, v, buy, margin, lev, .. } if so.outcome.ok => {
            let p0o = so.pre_t(*v, t);
            let post = so.post_t(*v, t);
            let cum = so.pre.vamms[*v].cum;
            if let Some(pp) = &p0o.pos {
                if !pp.size.is_zero() {
                    let owed = owed_ref(pp, cum, cps, *v, t);
                    let n = margin * lev / du();
                    let same_side = (pp.direction == Direction::AddToAmm) == *buy;
                    match &post.pos {
                        Some(pn) if !pn.size.is_zero() => {
                            let reversed = (size_of(pp) > 0) != (size_of(pn) > 0);
                            if owed != 0 {
                                if same_side {
                                    out.tag("c11:increase-with-funding-owed");
                                    let e = pp.margin.u128() as i128 + (n * du() / lev) as i128 - owed;
                                    if (pn.margin.u128() as i128 - e.max(0)).abs() > 2 {
                                        out.viol("C11:funding-charge:increase", format!("margin' {} expected {} (owed {}) in {:?}", pn.margin, e, owed, so.act));
                                    }
                                } else if !reversed {
                                    out.tag("c11:reduce-with-funding-owed");
                                    let out_base = (size_of(pp) - size_of(pn)).abs();
                                    let pnl = pnl_of(pp, p0o.out_spot);
                                    let e = pp.margin.u128() as i128 + tdiv(pnl * out_base, size_of(pp).abs()) - owed;
                                    if (pn.margin.u128() as i128 - e.max(0)).abs() > 2 {
                                        out.viol("C11:funding-charge:reduce", format!("margin' {} expected {} (owed {}) in {:?}", pn.margin, e, owed, so.act));
                                    }
                                } else {
                                    out.tag("c11:reversal-with-funding-owed");
                                    // the trader must end up having paid new margin minus old equity (incl. funding)
                                    let net_paid = -so.bal_delta(t);
                                    let (sf, tf) = w.calc_fee(*v, n);
                                    let old_eq = pp.margin.u128() as i128 + pnl_of(pp, p0o.out_spot) - owed;
                                    let exp_net = pn.margin.u128() as i128 - old_eq + (sf + tf) as i128;
                                    // only the funding component is C11's business: the discrepancy is judged when it is a
                                    // small multiple of the funding owed (not charged = the listed finding, charged twice, ...);
                                    // a discrepancy of another size has another cause (e.g. the listed native overcharge of C13)
                                    let dlt = net_paid - exp_net;
                                    if dlt.abs() > 3 {
                                        let k_of = |k: i128| (dlt - k * owed).abs() <= 3;
                                        if owed.abs() <= 6 {
                                            out.tag("c11:reversal-funding-too-small-to-separate");
                                        } else if k_of(-1) {
                                            out.viol("C11:funding-charge:reversal-skips-funding", format!("trader paid net {} expected {} (old equity {} incl. funding owed {}) in {:?}", net_paid, exp_net, old_eq, owed, so.act));
                                        } else if k_of(1) || k_of(2) || k_of(-2) {
                                            out.viol("C11:funding-charge:reversal", format!("trader paid net {} expected {} (old equity {} incl. funding owed {}) in {:?}", net_paid, exp_net, old_eq, owed, so.act));
                                        } else {
                                            out.tag("c11:reversal-payment-differs-for-reasons-other-than-funding");
                                        }
                                    }
                                }
                            }
                        }
                        _ => {
                            // exact close-out through OpenPosition
                            if owed != 0 {
                                out.tag("c11:closeout-by-open-with-funding-owed");
                                let net_recv = so.bal_delta(t);
                                let (sf, tf) = w.calc_fee(*v, n);
                                let old_eq = pp.margin.u128() as i128 + pnl_of(pp, p0o.out_spot) - owed;
                                let exp = old_eq - (sf + tf) as i128;
                                // judged while the closed position has equity to pay out, with and without the funding
                                // (what an exact close-out does with a position under water is not C11's business)
                                let dlt = net_recv - exp;
                                if dlt.abs() > 3 {
                                    let k_of = |k: i128| (dlt - k * owed).abs() <= 3;
                                    if old_eq < 0 || old_eq + owed < 0 {
                                        out.tag("c11:closeout-by-open-of-a-position-under-water");
                                    } else if owed.abs() <= 6 {
                                        out.tag("c11:reversal-funding-too-small-to-separate");
                                    } else if k_of(1) {
                                        out.viol("C11:funding-charge:reversal-skips-funding", format!("trader received net {} expected {} (old equity {} incl. funding owed {}) in {:?}", net_recv, exp, old_eq, owed, so.act));
                                    } else if k_of(-1) || k_of(2) || k_of(-2) {
                                        out.viol("C11:funding-charge:closeout-by-open", format!("trader received net {} expected {} (old equity {} incl. funding owed {}) in {:?}", net_recv, exp, old_eq, owed, so.act));
                                    } else {
                                        out.tag("c11:reversal-payment-differs-for-reasons-other-than-funding");
                                    }
                                }
                            }
                        }
                    }
                }
            }
        }
        Act::Wd { t, v, amt } if so.outcome.ok => {
            if let (Some(p0), Some(p1)) = (&so.pre_t(*v, t).pos, &so.post_t(*v, t).pos) {
                let owed = owed_ref(p0, so.pre.vamms[*v].cum, cps, *v, t);
                if owed != 0 {
                    out.tag("c11:withdraw-with-funding-owed");
                    let e = p0.margin.u128() as i128 - *amt as i128 - owed;
                    if (p1.margin.u128() as i128 - e.max(0)).abs() > 1 {
                        out.viol("C11:funding-charge:withdraw", format!("margin' {} expected {} (owed {}) in {:?}", p1.margin, e, owed, so.act));
                    }
                }
            }
        }
        Act::Close { t, v, .. } if so.outcome.ok => {
            // whole close: payout reflects funding owed exactly once (also C04)
            if let (Some(p0), None) = (&so.pre_t(*v, t).pos, &so.post_t(*v, t).pos) {
                let owed = owed_ref(p0, so.pre.vamms[*v].cum, cps, *v, t);
                if owed != 0 && so.pre_t(*v, t).out_spot >= 0 {
                    out.tag("c11:close-with-funding-owed");
                    let exch = so.swaps.first().map(|s| s.quote as i128).unwrap_or(so.pre_t(*v, t).out_spot);
                    let eq = p0.margin.u128() as i128 + pnl_of(p0, exch) - owed;
                    let paid: i128 = so.xfers.iter().filter(|x| !x.pulled && x.from == eng && &x.to == t).map(|x| x.amt as i128).sum();
                    if (paid - eq.max(0)).abs() > 1 {
                        out.viol("C11:funding-charge:close", format!("paid {} expected {} (owed {}) in {:?}", paid, eq, owed, so.act));
                    }
                }
            }
        }
        Act::Liq { t, v, by, .. } if so.outcome.ok => {
            // full liquidation charges the funding owed: remaining margin to the fund reflects it
            if let (Some(p0), None) = (&so.pre_t(*v, t).pos, &so.post_t(*v, t).pos) {
                let owed = owed_ref(p0, so.pre.vamms[*v].cum, cps, *v, t);
                if owed != 0 {
                    out.tag("c11:full-liquidation-with-funding-owed");
                    let exch = so.swaps.first().map(|s| s.quote as i128).unwrap_or(so.pre_t(*v, t).out_spot);
                    let fee = exch * cfg.liq_fee as i128 / di() / 2;
                    let rem = p0.margin.u128() as i128 + pnl_of(p0, exch) - owed - fee;
                    let to_if: i128 = so.xfers.iter().filter(|x| x.from == eng && x.to == ifu).map(|x| x.amt as i128).sum();
                    let _ = by;
                    if (to_if - rem.max(0)).abs() > 1 {
                        out.viol("C11:funding-charge:full-liquidation", format!("insurance fund got {} expected {} (owed {}) in {:?}", to_if, rem.max(0), owed, so.act));
                    }
                }
            }
        }
        Act::Dep { t, v, .. } if so.outcome.ok => {
            if let (Some(p0), Some(p1)) = (&so.pre_t(*v, t).pos, &so.post_t(*v, t).pos) {
                let owed = owed_of(p0, so.pre.vamms[*v].cum);
                if owed != 0 {
                    out.tag("c11:deposit-with-funding-owed");
                    // a deposit is not a charging event: checkpoint unchanged, margin moves by the amount only
                    if p1.last_updated_premium_fraction != p0.last_updated_premium_fraction {
                        out.viol("C11:checkpoint-moved-by-deposit", format!("{:?}", so.act));
                    }
                }
            }
        }
        _ => {}
    }
}

/// (vAMM TWAP - oracle TWAP) * period / day, from queries on the pre-state. The caller's world is at
/// the post-state; we temporarily restore the pre-state.
fn expected_fraction(w: &World, so: &StepObs, v: usize) -> Option<i128> {
    use cosmwasm_std::Uint128;
    use margined_perp::margined_vamm::QueryMsg as VammQuery;
    let post = w.snapshot();
    // World is not &mut here; go through the shared storage handle
    *w.store.0.borrow_mut() = so.pre_snap.kv.clone();
    let interval = w.vcfg(v).spot_price_twap_interval;
    // block info of pre == block of post for a transaction
    let a: Option<Uint128> = w.vq(v, &VammQuery::TwapPrice { interval }).ok();
    let o: Option<Uint128> = w.vq(v, &VammQuery::UnderlyingTwapPrice { interval }).ok();
    // the vAMM's time-weighted price over the funding interval, recomputed from its raw reserve snapshots
    let a = match (a, w.ref_spot_twap(v, interval)) {
        (Some(x), Some(r)) if x.u128().abs_diff(r) > 3 + r / 1_000_000_000 => Some(Uint128::new(r)),
        (x, _) => x,
    };
    *w.store.0.borrow_mut() = post.kv;
    match (a, o) {
        (Some(a), Some(o)) => Some(tdiv(
            (a.u128() as i128 - o.u128() as i128) * cfg_fp(w) as i128,
            86400,
        )),
        _ => None,
    }
}

// --------------------------------------------------------------------------------------- C12
pub fn oracle_c12(w: &World, so: &StepObs, out: &mut StepOut) {
    if !so.outcome.ok {
        return;
    }
    let cfg = &w.live_cfg(so.act.vamm_index());
    let ifu = w.ifund.to_string();
    let fp = w.fee_pool.to_string();
    let eng = w.engine.to_string();
    // what a pool received in this transaction: every successful collateral transfer whose recipient is the pool,
    // whoever sent it (pulled from the trader's wallet, or forwarded by the engine) and in however many parts
    let fee_to = |pool: &str, _t: &str| -> Vec<u128> { so.xfers.iter().filter(|x| x.to == pool && x.from != pool).map(|x| x.amt).collect() };
    match &so.act {
        Act::Open { t, v, margin, lev, .. } => {
            let n = margin * lev / du();
            let (es, et) = (n * cfg.spread / du(), n * cfg.toll / du());
            let sp = fee_to(&ifu, t);
            let tl = fee_to(&fp, t);
            out.tag("c12:open-ok");
            let p0 = so.pre_t(*v, t);
            let reversal = match (&p0.pos, &so.post_t(*v, t).pos) {
                (Some(a), Some(b)) => !a.size.is_zero() && !b.size.is_zero() && (size_of(a) > 0) != (size_of(b) > 0),
                _ => false,
            };
            if reversal {
                out.tag("c12:reversal-ok");
            }
            if es == 0 && et == 0 && (cfg.spread > 0 || cfg.toll > 0) {
                out.tag("c12:fee-rounds-to-zero");
            }
            // native: remaining margin of a full liquidation etc. never happens in an open; the only
            // engine->insurance-fund send in an open is the spread fee
            let sp_sum: u128 = sp.iter().sum();
            let tl_sum: u128 = tl.iter().sum();
            let sp_ok = sp_sum == es;
            let tl_ok = tl_sum == et;
            if !sp_ok {
                out.viol(
                    format!("C12:open-spread-fee{}", if reversal { ":reversal" } else { "" }),
                    format!("spread transfers {:?} expected a total of {} (notional {}) in {:?}", sp, es, n, so.act),
                );
            }
            if !tl_ok {
                out.viol(
                    format!("C12:open-toll-fee{}", if reversal { ":reversal" } else { "" }),
                    format!("toll transfers {:?} expected a total of {} (notional {}) in {:?}", tl, et, n, so.act),
                );
            }
            let fp_delta = so.bal_delta(&fp);
            if fp_delta != et as i128 {
                out.viol("C12:fee-pool-delta:open", format!("fee pool delta {} expected {} in {:?}", fp_delta, et, so.act));
            }
        }
        Act::Close { t, v, .. } => {
            let p0 = so.pre_t(*v, t);
            if let Some(pp) = &p0.pos {
                if so.post_t(*v, t).pos.is_none() {
                    out.tag("c12:whole-close-ok");
                    let n = pp.notional.u128();
                    let (qs, qt) = {
                        // the fee the vAMM quotes for the open notional
                        let (s, tl) = w.calc_fee(*v, n);
                        (s, tl)
                    };
                    let (es, et) = (n * cfg.spread / du(), n * cfg.toll / du());
                    let sp: u128 = fee_to(&ifu, t).iter().sum();
                    let tl: u128 = fee_to(&fp, t).iter().sum();
                    // native: engine -> insurance fund also never carries anything else on a close
                    if sp != es || tl != et || qs != es || qt != et {
                        out.viol(
                            "C12:close-fees",
                            format!("spread {} toll {} expected {} {} (vAMM quotes {} {}) for open notional {} in {:?}", sp, tl, es, et, qs, qt, n, so.act),
                        );
                    }
                }
            }
        }
        Act::Dep { t, .. } | Act::Wd { t, .. } => {
            out.tag("c12:non-trade-ok");
            let f: u128 = fee_to(&fp, t).iter().sum::<u128>() + fee_to(&ifu, t).iter().sum::<u128>();
            if f != 0 || so.bal_delta(&fp) != 0 || so.bal_delta(&ifu) > 0 {
                out.viol(format!("C12:fee-on-{}", so.act.kind()), format!("{:?}: fee transfers {} fee pool delta {} insurance fund delta {}", so.act, f, so.bal_delta(&fp), so.bal_delta(&ifu)));
            }
        }
        Act::Fund { .. } | Act::Liq { .. } => {
            out.tag("c12:non-trade-ok");
            let pulled: u128 = so.xfers.iter().filter(|x| x.pulled).map(|x| x.amt).sum();
            if so.bal_delta(&fp) != 0 || pulled != 0 {
                out.viol(format!("C12:fee-on-{}", so.act.kind()), format!("{:?}: fee pool delta {} pulled from wallets {}", so.act, so.bal_delta(&fp), pulled));
            }
        }
        _ => {}
    }
}

// --------------------------------------------------------------------------------------- C08 residue
pub fn oracle_residue(w: &World, so: &StepObs, out: &mut StepOut) {
    let left = w.in_flight();
    if !left.is_empty() {
        out.viol(
            format!("C08:in-flight-residue:{}:{}", so.act.kind(), left.join("+")),
            format!("engine still holds {:?} after {:?} (ok={})", left, so.act, so.outcome.ok),
        );
    }
    if !so.outcome.ok && !so.store_unchanged() {
        out.viol(
            format!("C08:failed-tx-changed-store:{}", so.act.kind()),
            format!("{:?} failed ({}) but the store differs", so.act, so.outcome.err),
        );
    }
}
