pub mod eng;
pub mod adminprops;
pub mod c19;
pub mod engprops;
pub mod roles;
pub mod twin;
pub mod vammprops;

use crate::evidence::Tier;

pub fn run(prop: &str, tier: Tier) -> i32 {
    match prop {
        "C02" => engprops::run_c02(tier),
        "C03" => engprops::run_c03(tier),
        "C10" => engprops::run_c10(tier),
        "C04" => engprops::run_c04(tier),
        "C05" => engprops::run_c05(tier),
        "C06" => engprops::run_c06(tier),
        "C07" => engprops::run_c07(tier),
        "C08" => engprops::run_c08(tier),
        "C11" => engprops::run_c11(tier),
        "C12" => engprops::run_c12(tier),
        "C15" => engprops::run_c15(tier),
        "C16" => engprops::run_c16(tier),
        "C17" => engprops::run_c17(tier),
        "C01" => vammprops::run_c01(tier),
        "C19" => c19::run_c19(tier),
        "C09" => roles::run_c09(tier),
        "C13" => twin::run_c13(tier),
        "C14" => adminprops::run_c14(tier),
        "C20" => adminprops::run_c20(tier),
        "C18" => vammprops::run_c18(tier),
        _ => {
            eprintln!("unknown property {}", prop);
            2
        }
    }
}

/// `perpmc replay <file>`: re-execute a recorded counterexample without the explorer.
pub fn replay(path: &str) -> i32 {
    let s = std::fs::read_to_string(path).expect("replay file");
    let v: serde_json::Value = serde_json::from_str(&s).expect("replay json");
    let prop = v["property"].as_str().unwrap_or("");
    let sig = v["signature"].as_str().unwrap_or("");
    if prop == "C19" {
        // value-level property: the replay file names the operands in its detail; re-run the sweep
        println!("{}", v["detail"]);
        return c19::run_c19(Tier::Quick);
    }
    let is_v = matches!(prop, "C01" | "C18") || (prop == "C17" && v["params"]["amounts"].is_array());
    let viols = if prop == "C09" {
        roles::replay_roles(&v["params"], &v["actions"])
    } else if prop == "C13" {
        twin::replay_twin(&v["params"], &v["actions"])
    } else if is_v {
        vammprops::replay_v(prop, &v["params"], &v["actions"])
    } else if engprops::oracle_for(prop).is_some() {
        engprops::replay_eng(prop, &v["params"], &v["actions"])
    } else {
        eprintln!("no replay for {}", prop);
        return 2;
    };
    if viols.iter().any(|x| x.sig == sig) {
        println!("REPRODUCED {} {}", prop, sig);
        1
    } else {
        println!("NOT REPRODUCED {} {}", prop, sig);
        0
    }
}

/// debugging aid: run actions on an engine world and print what happens
pub fn trace(cfg_json: &str, acts_json: &str) -> i32 {
    use crate::acts::*;
    use crate::obs::*;
    use crate::world::*;
    let mut cfg = Cfg::default();
    let over: serde_json::Value = serde_json::from_str(cfg_json).expect("cfg json");
    let mut base = crate::evidence::to_val(&cfg);
    if let Some(o) = over.as_object() {
        for (k, v) in o {
            base[k] = v.clone();
        }
    }
    cfg = crate::evidence::from_val(&base);
    let mut acts: Vec<Act> = serde_json::from_str(acts_json).expect("actions json");
    if std::env::var("VERIF_TRACE_NOTATION").is_ok() {
        // actions given in 6-decimal notation for a world with more decimals
        acts = acts.iter().map(|a| a.scaled(cfg.k())).collect();
    }
    let mut w = World::new(&cfg);
    let traders = ["alice", "bob", "carol"];
    for (i, a) in acts.iter().enumerate() {
        let o = apply(&mut w, a);
        println!("step {:2}: {:?}\n         ok={} {}", i, a, o.ok, o.err.replace('\n', " "));
        let ob = observe(&w, &traders);
        let v = &ob.vamms[0];
        println!("         t={} h={} spot={} q={} b={} tps={} cum={} oracle={} vault={} if={} fp={} baddebt={}", ob.now, ob.height, v.spot, v.state.quote_asset_reserve, v.state.base_asset_reserve, v.state.total_position_size, v.cum, v.oracle, ob.balances[w.engine.as_str()], ob.balances[w.ifund.as_str()], ob.balances[w.fee_pool.as_str()], ob.prepaid_bad_debt);
        for t in traders {
            let to = &ob.traders[&(0, t.to_string())];
            if let Some(p) = &to.pos {
                println!("         {}: size={} margin={} notional={} cp={} blk={} out_spot={} out_twap={} ratio(ref,liq)={:?} ratio(query)={:?} bal={}", t, p.size, p.margin, p.notional, p.last_updated_premium_fraction, p.block_number, to.out_spot, to.out_twap, ref_ratio(to, v, true), w.margin_ratio(0, t).map(|x| x.to_string()), ob.balances[t]);
            }
        }
    }
    0
}
