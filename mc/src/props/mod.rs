pub mod eng;
pub mod adminprops;
pub mod c19;
pub mod engprops;
pub mod roles;
pub mod twin;
pub mod vammprops;

use crate::evidence::Tier;

pub fn run(prop: &str, tier: Tier) -> i32 {
    match prop {
        "C02" => engprops::run_c02(tier),
        "C03" => engprops::run_c03(tier),
        "C10" => engprops::run_c10(tier),
        "C04" => engprops::run_c04(tier),
        "C05" => engprops::run_c05(tier),
        "C06" => engprops::run_c06(tier),
        "C07" => engprops::run_c07(tier),
        "C08" => engprops::run_c08(tier),
        "C11" => engprops::run_c11(tier),
        "C12" => engprops::run_c12(tier),
        "C15" => engprops::run_c15(tier),
        "C16" => engprops::run_c16(tier),
        "C17" => engprops::run_c17(tier),
        "C01" => vammprops::run_c01(tier),
        "C19" => c19::run_c19(tier),
        "C09" => roles::run_c09(tier),
        "C13" => twin::run_c13(tier),
        "C14" => adminprops::run_c14(tier),
        "C20" => adminprops::run_c20(tier),
        "C18" => vammprops::run_c18(tier),
        _ => {
            eprintln!("unknown property {}", prop);
            2
        }
    }
}

/// `perpmc replay <file>`: re-execute a recorded counterexample without the explorer.
pub fn replay(path: &str) -> i32 {
    let s = std::fs::read_to_string(path).expect("replay file");
    let v: serde_json::Value = serde_json::from_str(&s).expect("replay json");
    let prop = v["property"].as_str().unwrap_or("");
    let sig = v["signature"].as_str().unwrap_or("");
    if prop == "C19" {
        // value-level property: the replay file names the operands in its detail; re-run the sweep
        println!("{}", v["detail"]);
        return c19::run_c19(Tier::Quick);
    }
    let is_v = matches!(prop, "C01" | "C18") || (prop == "C17" && v["params"]["amounts"].is_array());
    let viols = if prop == "C09" {
        roles::replay_roles(&v["params"], &v["actions"])
    } else if prop == "C13" {
        twin::replay_twin(&v["params"], &v["actions"])
    } else if is_v {
        vammprops::replay_v(prop, &v["params"], &v["actions"])
    } else if engprops::oracle_for(prop).is_some() {
        engprops::replay_eng(prop, &v["params"], &v["actions"])
    } else {
        eprintln!("no replay for {}", prop);
        return 2;
    };
    if viols.iter().any(|x| x.sig == sig) {
        println!("REPRODUCED {} {}", prop, sig);
        1
    } else {
        println!("NOT REPRODUCED {} {}", prop, sig);
        0
    }
}
