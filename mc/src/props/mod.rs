pub mod eng;
pub mod engprops;

use crate::evidence::Tier;

pub fn run(prop: &str, tier: Tier) -> i32 {
    match prop {
        "C02" => engprops::run_c02(tier),
        "C03" => engprops::run_c03(tier),
        "C10" => engprops::run_c10(tier),
        _ => {
            eprintln!("unknown property {}", prop);
            2
        }
    }
}

/// `perpmc replay <file>`: re-execute a recorded counterexample without the explorer.
pub fn replay(path: &str) -> i32 {
    let s = std::fs::read_to_string(path).expect("replay file");
    let v: serde_json::Value = serde_json::from_str(&s).expect("replay json");
    let prop = v["property"].as_str().unwrap_or("");
    let sig = v["signature"].as_str().unwrap_or("");
    let viols = if engprops::oracle_for(prop).is_some() {
        engprops::replay_eng(prop, &v["params"], &v["actions"])
    } else {
        eprintln!("no replay for {}", prop);
        return 2;
    };
    if viols.iter().any(|x| x.sig == sig) {
        println!("REPRODUCED {} {}", prop, sig);
        1
    } else {
        println!("NOT REPRODUCED {} {}", prop, sig);
        0
    }
}
