//! vAMM-level and price-feed-level checks: C01 (curve conservation), C17 (quotes = executions,
//! limits), C18 (TWAPs within observed prices).
use std::collections::BTreeMap;

use cosmwasm_std::{Uint128, Uint256};
use margined_perp::margined_pricefeed::QueryMsg as PfQuery;
use margined_perp::margined_vamm::QueryMsg as VammQuery;
use serde_json::{json, Value};

use crate::evidence::*;
use crate::explorer::*;
use crate::vammworld::*;
use crate::world::{itoi, Snap};

#[derive(serde::Deserialize, Clone, Debug)]
struct PriceResp {
    price: Uint128,
    timestamp: cosmwasm_std::Timestamp,
}

#[derive(Clone)]
pub struct VSt {
    pub snap: Snap,
    pub mon: Value,
}

pub type VOracle = fn(&VModel, &mut VWorld, &VSt, &VAct, &mut StepOut) -> Option<VSt>;
pub type VAlpha = fn(&VModel, &mut VWorld, &VSt) -> Vec<VAct>;

pub struct VModel {
    pub cfg: VCfg,
    pub oracle: VOracle,
    pub alpha: VAlpha,
    pub init_mon: Value,
    pub amounts: Vec<u128>,
    pub secs: Vec<u64>,
}

impl Model for VModel {
    type Ctx = VWorld;
    type State = VSt;
    type Act = VAct;
    fn make_ctx(&self) -> VWorld {
        VWorld::new(&self.cfg)
    }
    fn initial(&self, ctx: &mut VWorld) -> VSt {
        VSt {
            snap: ctx.init.clone(),
            mon: self.init_mon.clone(),
        }
    }
    fn key(&self, s: &VSt) -> Key {
        let m = if s.mon.is_null() {
            vec![]
        } else {
            serde_json::to_vec(&s.mon).unwrap()
        };
        hash_snap(&s.snap.kv, s.snap.block.height, s.snap.block.time.nanos(), &m)
    }
    fn actions(&self, ctx: &mut VWorld, s: &VSt) -> Vec<VAct> {
        (self.alpha)(self, ctx, s)
    }
    fn step(&self, ctx: &mut VWorld, s: &VSt, a: &VAct, out: &mut StepOut) -> Option<VSt> {
        (self.oracle)(self, ctx, s, a, out)
    }
}

fn vparams(m: &VModel) -> Value {
    json!({"cfg": to_val(&m.cfg), "init_mon": m.init_mon, "amounts": to_val(&m.amounts), "secs": m.secs})
}

pub fn replay_v(prop: &str, params: &Value, actions: &Value) -> Vec<Viol> {
    let (oracle, alpha): (VOracle, VAlpha) = match prop {
        "C01" => (step_c01, alpha_c01),
        "C17" => (step_c17, alpha_c17),
        "C18" => {
            if params["feed"].as_bool() == Some(true) {
                (step_c18_feed, alpha_c18_feed)
            } else {
                (step_c18, alpha_c18)
            }
        }
        _ => panic!("not a vAMM-level property"),
    };
    let model = VModel {
        cfg: from_val(&params["cfg"]),
        oracle,
        alpha,
        init_mon: params["init_mon"].clone(),
        amounts: from_val(&params["amounts"]),
        secs: from_val(&params["secs"]),
    };
    let acts: Vec<VAct> = from_val(actions);
    let mut ctx = model.make_ctx();
    let mut s = model.initial(&mut ctx);
    let mut all = vec![];
    for (i, a) in acts.iter().enumerate() {
        let mut out = StepOut::default();
        let ns = model.step(&mut ctx, &s, a, &mut out);
        println!("step {:2}: {:?}", i, a);
        for (t, _) in &out.tags {
            if t.starts_with("outcome:") {
                println!("          {}", t);
            }
        }
        for v in &out.viols {
            println!("          VIOLATES {} :: {}", v.sig, v.detail);
        }
        all.extend(out.viols);
        match ns {
            Some(ns) => s = ns,
            None => break,
        }
    }
    all
}

/// u128 in a JSON monitor (serde_json::Value holds at most u64 numbers)
fn ju(v: u128) -> Value {
    json!(v.to_string())
}
fn uj(v: &Value) -> Option<u128> {
    match v {
        Value::String(s) => s.parse().ok(),
        Value::Number(n) => n.as_u64().map(|x| x as u128),
        _ => None,
    }
}

fn dec(cfg: &VCfg) -> u128 {
    10u128.pow(cfg.decimals as u32)
}

fn scaled_k(q: u128, b: u128, d: u128) -> Uint256 {
    Uint256::from(q) * Uint256::from(b) / Uint256::from(d)
}

// ------------------------------------------------------------------------------------------ C01
fn swap_alphabet(m: &VModel, w: &mut VWorld, s: &VSt, with_blk: bool) -> Vec<VAct> {
    w.restore(&s.snap);
    let st = w.state();
    let (q, b) = (st.quote_asset_reserve.u128(), st.base_asset_reserve.u128());
    let mut acts = vec![];
    let mut qa: Vec<u128> = m.amounts.clone();
    qa.push(q / 2);
    qa.push(q.saturating_sub(1));
    let mut ba: Vec<u128> = m.amounts.clone();
    ba.push(b / 2);
    ba.push(b.saturating_sub(1));
    // amounts that make positions return
    let tps = itoi(&st.total_position_size);
    if tps != 0 {
        // close everything: net long is closed by adding base to the amm
        acts.push(VAct::SwapOut { add: tps > 0, base: tps.unsigned_abs(), limit: 0 });
    }
    if let (Some(lq), Some(lb), Some(ladd), Some(lin)) = (
        uj(&s.mon["last_q"]),
        uj(&s.mon["last_b"]),
        s.mon["last_add_reserve"].as_bool(),
        s.mon["last_in"].as_bool(),
    ) {
        let _ = lin;
        // round trips: undo the previous swap by base amount, and by quote amount
        // previous swap added quote to the reserve (ladd) => undo removes it
        acts.push(VAct::SwapOut { add: ladd, base: lb, limit: 0 });
        acts.push(VAct::SwapIn { add: !ladd, quote: lq, limit: 0, over: true });
    }
    for add in [true, false] {
        for a in &qa {
            if *a > 0 {
                acts.push(VAct::SwapIn { add, quote: *a, limit: 0, over: true });
            }
        }
        for a in &ba {
            if *a > 0 {
                acts.push(VAct::SwapOut { add, base: *a, limit: 0 });
            }
        }
    }
    if with_blk {
        for sx in &m.secs {
            acts.push(VAct::Blk { secs: *sx, ms: 0 });
        }
    }
    acts.dedup();
    acts
}

fn alpha_c01(m: &VModel, w: &mut VWorld, s: &VSt) -> Vec<VAct> {
    let mut base = swap_alphabet(m, w, s, true);
    // the owner pauses / re-opens the market and the engine settles funding between swaps: the curve's books (reserves,
    // net position) are none of their business
    base.push(VAct::SetOpen { open: !w.state().open });
    base.push(VAct::Settle);
    // every swap also with a slippage limit exactly at, one unit inside and one unit past the quoted amount: whether
    // such a swap is accepted is C17's business, but an accepted one must still conserve the curve
    let mut acts = vec![];
    for a in base {
        let quoted: Result<Uint128, String> = match &a {
            VAct::SwapIn { add, quote, .. } => w.vq(&VammQuery::InputAmount { direction: dir(*add), amount: Uint128::new(*quote) }),
            VAct::SwapOut { add, base, .. } => w.vq(&VammQuery::OutputAmount { direction: dir(*add), amount: Uint128::new(*base) }),
            _ => Err(String::new()),
        };
        acts.push(a.clone());
        if let Ok(qv) = quoted {
            let qv = qv.u128();
            for l in [qv.saturating_sub(1), qv, qv + 1] {
                if l == 0 {
                    continue;
                }
                acts.push(match a.clone() {
                    VAct::SwapIn { add, quote, over, .. } => VAct::SwapIn { add, quote, limit: l, over },
                    VAct::SwapOut { add, base, .. } => VAct::SwapOut { add, base, limit: l },
                    x => x,
                });
            }
        }
    }
    acts
}

/// monitor: {b0, seen: {tps -> max quote reserve seen at that size}, last_*: previous accepted swap}
fn step_c01(m: &VModel, w: &mut VWorld, s: &VSt, a: &VAct, out: &mut StepOut) -> Option<VSt> {
    w.restore(&s.snap);
    let d = dec(&m.cfg);
    let st0 = w.state();
    let (q0, b0) = (st0.quote_asset_reserve.u128(), st0.base_asset_reserve.u128());
    let o = w.apply(a);
    out.executions += 1;
    let post = w.snapshot();
    let mut mon = s.mon.clone();
    if matches!(a, VAct::Blk { .. }) {
        return Some(VSt { snap: post, mon });
    }
    if matches!(a, VAct::SetOpen { .. } | VAct::Settle) {
        // not a swap: the reserves and the reported net position must be what they were
        let st1 = w.state();
        if st1.quote_asset_reserve.u128() != q0 || st1.base_asset_reserve.u128() != b0 || st1.total_position_size != st0.total_position_size {
            out.viol(
                "C01:curve-books-changed-outside-a-swap",
                format!("{:?} (ok={}) changed (q, b, net position) from ({}, {}, {}) to ({}, {}, {})", a, o.ok, q0, b0, st0.total_position_size, st1.quote_asset_reserve, st1.base_asset_reserve, st1.total_position_size),
            );
        }
        out.tag("c01:administrative-steps");
        return Some(VSt { snap: post, mon });
    }
    out.tag(format!("outcome:swap:{}", if o.ok { "ok" } else if o.panicked { "panic" } else { "err" }));
    if !o.ok {
        if post.kv != s.snap.kv {
            out.viol("C01:rejected-swap-changed-store", format!("{:?} failed ({}) but the store differs", a, o.err));
        }
        return Some(VSt { snap: post, mon });
    }
    let st1 = w.state();
    let (q1, b1) = (st1.quote_asset_reserve.u128(), st1.base_asset_reserve.u128());
    let tps1 = itoi(&st1.total_position_size);
    out.tag("c01:accepted-swaps");
    // (1) scaled product never decreases
    let (k0, k1) = (scaled_k(q0, b0, d), scaled_k(q1, b1, d));
    if k1 < k0 {
        out.viol(
            format!("C01:scaled-product-decreased:{}", match a { VAct::SwapIn { add, .. } => format!("swap_input:{}", if *add { "add" } else { "remove" }), VAct::SwapOut { add, .. } => format!("swap_output:{}", if *add { "add" } else { "remove" }), _ => "?".into() }),
            format!("floor(q*b/D) {} -> {} by {:?} from (q,b)=({},{}) to ({},{})", k0, k1, a, q0, b0, q1, b1),
        );
    }
    let has_rem = (Uint256::from(q0) * Uint256::from(b0)) % Uint256::from(d) != Uint256::zero() || {
        // did this swap leave a division remainder?
        true
    };
    let _ = has_rem;
    // (2) base reserve + net position == initial base reserve
    let binit = uj(&mon["b0"]).unwrap_or(m.cfg.base_reserve) as i128;
    if b1 as i128 + tps1 != binit {
        out.viol(
            "C01:base-plus-net-position",
            format!("base reserve {} + net position {} != initial base reserve {} after {:?}", b1, tps1, binit, a),
        );
    }
    // (3) quote reserve at a revisited net position
    let key = tps1.to_string();
    let prev = uj(&mon["seen"][&key]);
    if let Some(pq) = prev {
        out.tag("c01:revisited-net-position");
        if q1 < pq {
            let minb = b0.min(b1).max(1);
            let dust = minb < d && (pq - q1) <= (d + minb - 1) / minb;
            out.viol(
                if dust { "C01:quote-regression:dust-while-base-reserve-below-one-unit".to_string() } else { "C01:quote-regression".to_string() },
                format!("net position {} revisited with quote reserve {} < {} seen before; (q,b) ({},{}) -> ({},{}) by {:?}", tps1, q1, pq, q0, b0, q1, b1, a),
            );
        }
    }
    let newmax = prev.map(|p| p.max(q1)).unwrap_or(q1);
    mon["seen"][&key] = ju(newmax);
    if mon["seen"][&itoi(&st0.total_position_size).to_string()].is_null() {
        mon["seen"][&itoi(&st0.total_position_size).to_string()] = ju(q0);
    }
    let (lq, lb) = w.last_swap().unwrap_or((0, 0));
    mon["last_q"] = ju(lq);
    mon["last_b"] = ju(lb);
    mon["last_add_reserve"] = json!(q1 > q0);
    mon["last_in"] = json!(matches!(a, VAct::SwapIn { .. }));
    Some(VSt { snap: post, mon })
}

pub fn run_c01(tier: Tier) -> i32 {
    let mut run = Run::new("C01", tier.clone());
    run.rule = "vAMM alone: every sequence of swap_input/swap_output x add/remove x amounts {1,2,3,7,999999,D,D+1,3333337,10D,q/2,q-1|b-1} plus three state-dependent amounts (close everything, undo previous swap by base, undo by quote) and block steps, up to the depth bound from each reserve pair; the per-net-position maximum quote reserve is a monitor in the state; non-trivial = an accepted swap".into();
    run.nontrivial = vec!["c01:accepted-swaps".into()];
    run.assumptions = vec!["amount and reserve alphabets as listed; the inequality for all 128-bit triples is not decided".into()];
    let dd = 1_000_000u128;
    let pairs_q: Vec<(u128, u128)> = vec![(dd, dd), (1000 * dd, 100 * dd), (1000 * dd + 7, 100 * dd + 3), (333_333_337, 7_000_003)];
    let pairs_t: Vec<(u128, u128)> = vec![
        (dd, dd), (dd, 1000 * dd), (1000 * dd, dd), (1000 * dd, 100 * dd), (1000 * dd + 7, 100 * dd + 3),
        (333_333_337, 7_000_003), (7_000_003, 333_333_337), (2 * dd, 3 * dd), (123_456_789_012, 9_876_543_210),
    ];
    let amounts_q = vec![1, 2, 7, 999_999, dd + 1, 3_333_337];
    let amounts_t = vec![1, 2, 3, 7, 999_999, dd, dd + 1, 3_333_337, 10 * dd];
    let (mut pairs, amounts, depth) = match tier {
        Tier::Quick => (pairs_q, amounts_q, 3),
        Tier::Thorough => (pairs_t, amounts_t, 3),
    };
    // deep pools: the raw reserve product exceeds 2^128 (swaps must then either be rejected or keep
    // every clause; amounts are scaled by the reserves through q/2, q-1, b/2, b-1 and the round trips)
    pairs.push((30_000_000_000_000_000_000, 30_000_000_000_000_000_007));
    pairs.push((40_000_000_000_000, 10_000_000_000_000_000_000_000_003));
    for (q, b) in pairs {
        let m = VModel {
            cfg: VCfg { quote_reserve: q, base_reserve: b, decimals: 6, fluct: 0, real_feed: false },
            oracle: step_c01,
            alpha: alpha_c01,
            init_mon: json!({"b0": ju(b), "seen": {"0": ju(q)}}),
            amounts: amounts.clone(),
            secs: vec![15],
        };
        run.explore(&format!("curve (q,b)=({},{})", q, b), vparams(&m), &m, &[vec![]], &Limits::new(depth));
    }
    if tier == Tier::Thorough {
        // deeper on the fixture pair with a reduced alphabet, and a 9-decimals vAMM
        let m = VModel {
            cfg: VCfg { quote_reserve: 1000 * dd, base_reserve: 100 * dd, decimals: 6, fluct: 0, real_feed: false },
            oracle: step_c01,
            alpha: alpha_c01,
            init_mon: json!({"b0": ju(100 * dd), "seen": {"0": ju(1000 * dd)}}),
            amounts: vec![1, 7, dd + 1, 3_333_337],
            secs: vec![],
        };
        run.explore("curve deep (1000D,100D)", vparams(&m), &m, &[vec![]], &Limits::new(4));
        let d9 = 1_000_000_000u128;
        let m = VModel {
            cfg: VCfg { quote_reserve: 1000 * d9 + 7, base_reserve: 100 * d9 + 3, decimals: 9, fluct: 0, real_feed: false },
            oracle: step_c01,
            alpha: alpha_c01,
            init_mon: json!({"b0": ju(100 * d9 + 3), "seen": {"0": ju(1000 * d9 + 7)}}),
            amounts: vec![1, 7, d9 + 1, 3_333_333_337],
            secs: vec![15],
        };
        run.explore("curve 9 decimals", vparams(&m), &m, &[vec![]], &Limits::new(3));
    }
    run.finish()
}

// ------------------------------------------------------------------------------------------ C17 (vAMM level)
fn alpha_c17(m: &VModel, w: &mut VWorld, s: &VSt) -> Vec<VAct> {
    swap_alphabet(m, w, s, false)
}

fn step_c17(m: &VModel, w: &mut VWorld, s: &VSt, a: &VAct, out: &mut StepOut) -> Option<VSt> {
    let _ = m;
    w.restore(&s.snap);
    let st0 = w.state();
    let (q0, b0) = (st0.quote_asset_reserve.u128(), st0.base_asset_reserve.u128());
    // quote first
    let quoted: Result<Uint128, String> = match a {
        VAct::SwapIn { add, quote, .. } => w.vq(&VammQuery::InputAmount { direction: dir(*add), amount: Uint128::new(*quote) }),
        VAct::SwapOut { add, base, .. } => w.vq(&VammQuery::OutputAmount { direction: dir(*add), amount: Uint128::new(*base) }),
        _ => return Some(s.clone()),
    };
    let o = w.apply(a);
    out.executions += 1;
    let post = w.snapshot();
    if !o.ok {
        out.tag("c17:unlimited-swap-rejected");
        if post.kv != s.snap.kv {
            out.viol("C17:rejected-swap-changed-store", format!("{:?}: {}", a, o.err));
        }
        return Some(VSt { snap: post, mon: Value::Null });
    }
    out.tag("c17:quote-vs-execution");
    let st1 = w.state();
    let (q1, b1) = (st1.quote_asset_reserve.u128(), st1.base_asset_reserve.u128());
    let (evq, evb) = w.last_swap().unwrap_or((u128::MAX, u128::MAX));
    let dq = q1.abs_diff(q0);
    let db = b1.abs_diff(b0);
    // requested side / counter side
    let (req, e, e_ev, req_moved, counter_moved, kind, add) = match a {
        VAct::SwapIn { add, quote, .. } => (*quote, quoted.clone().map(|x| x.u128()), evb, dq, db, "swap_input", *add),
        VAct::SwapOut { add, base, .. } => (*base, quoted.clone().map(|x| x.u128()), evq, db, dq, "swap_output", *add),
        _ => unreachable!(),
    };
    match e {
        Ok(e) => {
            if e != e_ev || e != counter_moved {
                out.viol(
                    format!("C17:quote-differs-from-execution:{}:{}", kind, if add { "add" } else { "remove" }),
                    format!("{:?} from (q,b)=({},{}): query {} event {} reserve delta {}", a, q0, b0, e, e_ev, counter_moved),
                );
            }
        }
        Err(er) => out.viol(format!("C17:quote-failed-but-swap-executed:{}", kind), format!("{:?}: {}", a, er)),
    }
    if req_moved != req {
        out.viol(
            format!("C17:requested-side-moved-differently:{}", kind),
            format!("{:?}: requested {} moved {}", a, req, req_moved),
        );
    }
    // limits on both sides of and exactly at the executed amount
    let e = e_ev;
    // receiving side: swap_input add (receives base), swap_output add (receives quote) => ok iff e >= limit
    let receiving = add;
    // the whole range of the limit's type, not only the neighbourhood of the executed amount: a limit is a limit
    // whatever its size (sentinels such as the type's maximum included)
    let mut lims = vec![1, e / 2, e.saturating_sub(1), e, e + 1, e.saturating_mul(2), 1u128 << 64, 1u128 << 127, u128::MAX - 1, u128::MAX];
    lims.sort_unstable();
    lims.dedup();
    for lim in lims {
        if lim == 0 {
            continue;
        }
        w.restore(&s.snap);
        let al = match a {
            VAct::SwapIn { add, quote, over, .. } => VAct::SwapIn { add: *add, quote: *quote, limit: lim, over: *over },
            VAct::SwapOut { add, base, .. } => VAct::SwapOut { add: *add, base: *base, limit: lim },
            _ => unreachable!(),
        };
        let ol = w.apply(&al);
        out.executions += 1;
        out.tag("c17:limit-evaluations");
        let should = if receiving { e >= lim } else { e <= lim };
        if ol.ok != should {
            out.viol(
                format!("C17:limit-not-honoured:{}:{}:{}", kind, if add { "add" } else { "remove" }, if lim < e { "below" } else if lim == e { "at" } else { "above" }),
                format!("{:?} executes {} ; with limit {} ok={} expected ok={}", a, e, lim, ol.ok, should),
            );
        }
        let now = w.store.0.borrow().clone();
        if ol.ok && now != post.kv {
            out.viol(format!("C17:limit-changed-result:{}", kind), format!("{:?} with limit {} reached a different store", a, lim));
        }
        if !ol.ok && now != s.snap.kv {
            out.viol(format!("C17:limit-rejection-changed-store:{}", kind), format!("{:?} with limit {}", a, lim));
        }
    }
    w.restore(&post);
    Some(VSt { snap: post, mon: Value::Null })
}

pub fn run_c17_vamm(run: &mut Run, tier: &Tier) {
    let dd = 1_000_000u128;
    let pairs: Vec<(u128, u128)> = match tier {
        Tier::Quick => vec![(1000 * dd + 7, 100 * dd + 3), (dd, dd)],
        Tier::Thorough => vec![(1000 * dd, 100 * dd), (1000 * dd + 7, 100 * dd + 3), (dd, dd), (333_333_337, 7_000_003), (dd, 1000 * dd), (1000 * dd, dd)],
    };
    let depth = tier.pick(3, 3);
    for (q, b) in pairs {
        let m = VModel {
            cfg: VCfg { quote_reserve: q, base_reserve: b, decimals: 6, fluct: 0, real_feed: false },
            oracle: step_c17,
            alpha: alpha_c17,
            init_mon: Value::Null,
            amounts: vec![1, 2, 7, 999_999, dd + 1, 3_333_337, 10 * dd],
            secs: vec![],
        };
        run.explore(&format!("vAMM quotes/limits (q,b)=({},{})", q, b), vparams(&m), &m, &[vec![]], &Limits::new(depth));
    }
}

// ------------------------------------------------------------------------------------------ C18 (vAMM)
fn alpha_c18(m: &VModel, w: &mut VWorld, s: &VSt) -> Vec<VAct> {
    w.restore(&s.snap);
    let mut acts = vec![];
    for a in &m.amounts {
        acts.push(VAct::SwapIn { add: true, quote: *a, limit: 0, over: true });
        acts.push(VAct::SwapIn { add: false, quote: *a, limit: 0, over: true });
    }
    // the trade that takes the net position back to zero (several trades of one block can net out exactly)
    let tps = itoi(&w.state().total_position_size);
    if tps != 0 {
        acts.push(VAct::SwapOut { add: tps > 0, base: tps.unsigned_abs(), limit: 0 });
    }
    acts.push(VAct::Settle);
    // the owner pauses / re-opens the market
    acts.push(VAct::SetOpen { open: !w.state().open });
    for sx in &m.secs {
        acts.push(VAct::Blk { secs: *sx, ms: 0 });
    }
    // blocks that are not a whole number of seconds apart
    acts.push(VAct::Blk { secs: 5, ms: 600 });
    acts.push(VAct::Blk { secs: 0, ms: 700 });
    acts
}

/// prices in effect during [now - interval, now] given the history of (time, price) entries
fn window_prices(hist: &[(u64, u128)], now: u64, interval: u64) -> Vec<u128> {
    let start = now.saturating_sub(interval);
    let mut v = vec![];
    // the last entry at or before the window start is in effect at the start
    let mut at_start: Option<u128> = None;
    for (t, p) in hist {
        if *t <= start {
            at_start = Some(*p);
        } else {
            v.push(*p);
        }
    }
    if let Some(p) = at_start {
        v.push(p);
    }
    v
}

/// monitor: {hist: [[height, time, price]...]} block-final spot prices
fn step_c18(m: &VModel, w: &mut VWorld, s: &VSt, a: &VAct, out: &mut StepOut) -> Option<VSt> {
    let _ = m;
    w.restore(&s.snap);
    let o = w.apply(a);
    out.executions += 1;
    let post = w.snapshot();
    let mut mon = s.mon.clone();
    let h = post.block.height;
    let now = post.block.time.seconds();
    if mon["hist"].is_null() {
        // the vAMM's life starts with its instantiation snapshot
        let snaps = w.raw_snapshots();
        let (_, q, b, ts, hh) = snaps[0];
        mon = json!({"hist": [[hh, ts, (q * dec(&m.cfg) / b) as u64]]});
    }
    if matches!(a, VAct::Settle) {
        out.tag(if o.ok { "c18:funding-settlements-ok" } else { "c18:funding-settlements-refused" });
    }
    if o.ok && !matches!(a, VAct::Blk { .. } | VAct::Settle | VAct::SetOpen { .. }) {
        let p = w.spot() as u64;
        let hist = mon["hist"].as_array_mut().unwrap();
        if hist.last().unwrap()[0].as_u64() == Some(h) {
            let l = hist.len();
            hist[l - 1] = json!([h, now, p]);
        } else {
            hist.push(json!([h, now, p]));
        }
    }
    let hist: Vec<(u64, u128)> = mon["hist"].as_array().unwrap().iter().map(|e| (e[1].as_u64().unwrap(), e[2].as_u64().unwrap() as u128)).collect();
    // raw snapshot list: strictly increasing heights, one per block, last reflects current reserves
    let snaps = w.raw_snapshots();
    for i in 1..snaps.len() {
        if snaps[i].4 <= snaps[i - 1].4 {
            out.viol("C18:more-than-one-snapshot-per-block", format!("snapshots {:?} after {:?}", &snaps[i - 1..=i], a));
        }
    }
    let st = w.state();
    if let Some(l) = snaps.last() {
        if l.1 != st.quote_asset_reserve.u128() || l.2 != st.base_asset_reserve.u128() {
            out.viol("C18:latest-snapshot-not-final-reserves", format!("snapshot {:?} vs reserves ({},{}) after {:?}", l, st.quote_asset_reserve, st.base_asset_reserve, a));
        }
    }
    // at most one snapshot per block with a trade (a block whose trades leave the reserves where they were needs none)
    if snaps.len() > hist.len() {
        out.viol("C18:snapshot-count", format!("{} snapshots for {} blocks with trades (+instantiation) after {:?}", snaps.len(), hist.len(), a));
    }
    // TWAP over intervals shorter, equal and longer than the history
    let age = now - hist[0].0;
    let mut ivs = vec![1, 7, 900, 3600, 604800];
    for x in [age.saturating_sub(1), age, age + 1] {
        if x > 0 {
            ivs.push(x);
        }
    }
    ivs.sort();
    ivs.dedup();
    for iv in ivs {
        let r: Result<Uint128, String> = w.vq(&VammQuery::TwapPrice { interval: iv });
        match r {
            Ok(t) => {
                out.tag("c18:twap-evaluations");
                let t = t.u128();
                let wp = window_prices(&hist, now, iv);
                let (lo, hi) = (*wp.iter().min().unwrap(), *wp.iter().max().unwrap());
                if lo != hi {
                    out.tag("c18:twap-evaluations-over-changing-price");
                }
                if t < lo || t > hi {
                    out.viol(
                        format!("C18:vamm-twap-outside-observed-prices:{}", if iv > age { "interval-longer-than-history" } else if iv == age { "interval-equals-history" } else { "interval-within-history" }),
                        format!("TwapPrice({}) = {} outside [{}, {}] ; history (time, price) {:?} now {} after {:?}", iv, t, lo, hi, hist, now, a),
                    );
                }
            }
            Err(_) => out.tag("c18:twap-query-refused"),
        }
    }
    Some(VSt { snap: post, mon })
}

// ------------------------------------------------------------------------------------------ C18 (price feed)
fn alpha_c18_feed(m: &VModel, w: &mut VWorld, s: &VSt) -> Vec<VAct> {
    w.restore(&s.snap);
    let now = w.now();
    let last = s.mon["subs"].as_array().and_then(|a| a.last()).map(|e| e[1].as_u64().unwrap()).unwrap_or(0);
    let mut acts = vec![];
    // timestamps: the previous submission's, one later, now-10, now  (non-decreasing, not in the future)
    let mut tss = vec![now, now.saturating_sub(10)];
    if last > 0 {
        tss.push(last);
        tss.push(last + 1);
    }
    tss.sort();
    tss.dedup();
    for ts in tss {
        if ts < last || ts > now {
            continue;
        }
        for p in &m.amounts {
            acts.push(VAct::Append { price: *p, back: now - ts });
        }
    }
    if now >= last + 20 {
        acts.push(VAct::AppendMulti { prices: vec![m.amounts[0], m.amounts[1]], backs: vec![15, 5] });
        acts.push(VAct::AppendMulti { prices: vec![m.amounts[1], m.amounts[0], m.amounts[1]], backs: vec![12, 12, 0] });
    }
    if now >= last {
        acts.push(VAct::AppendMulti { prices: vec![m.amounts[1]], backs: vec![0] });
    }
    for sx in &m.secs {
        acts.push(VAct::Blk { secs: *sx, ms: 0 });
    }
    acts
}

fn step_c18_feed(m: &VModel, w: &mut VWorld, s: &VSt, a: &VAct, out: &mut StepOut) -> Option<VSt> {
    let _ = m;
    w.restore(&s.snap);
    let o = w.apply(a);
    out.executions += 1;
    let post = w.snapshot();
    let mut mon = s.mon.clone();
    if mon["subs"].is_null() {
        mon = json!({"subs": []});
    }
    let now = post.block.time.seconds();
    if o.ok {
        let subs = mon["subs"].as_array_mut().unwrap();
        match a {
            VAct::Append { price, back } => subs.push(json!([*price as u64, now - back])),
            VAct::AppendMulti { prices, backs } => {
                for (p, b) in prices.iter().zip(backs) {
                    subs.push(json!([*p as u64, now - b]));
                }
            }
            _ => {}
        }
    } else if !matches!(a, VAct::Blk { .. }) {
        out.viol("C18:feed-owner-submission-rejected", format!("{:?}: {}", a, o.err));
    }
    let subs: Vec<(u128, u64)> = mon["subs"].as_array().unwrap().iter().map(|e| (e[0].as_u64().unwrap() as u128, e[1].as_u64().unwrap())).collect();
    if subs.is_empty() {
        return Some(VSt { snap: post, mon });
    }
    let f = w.real_pf.clone();
    // latest
    let r: Result<PriceResp, String> = w.q(&f, &PfQuery::GetPrice { key: "ETH".into() });
    let parse = |v: &PriceResp| -> (u128, u64) { (v.price.u128(), v.timestamp.seconds()) };
    match r {
        Ok(v) => {
            out.tag("c18:feed-latest-evaluations");
            let got = parse(&v);
            if got != *subs.last().unwrap() {
                out.viol("C18:feed-latest-price", format!("GetPrice = {:?} but last submission {:?}", got, subs.last().unwrap()));
            }
        }
        Err(e) => out.viol("C18:feed-latest-price-refused", e),
    }
    // n rounds back
    for n in 0..=subs.len() + 1 {
        let r: Result<PriceResp, String> = w.q(&f, &PfQuery::GetPreviousPrice { key: "ETH".into(), num_round_back: Uint128::new(n as u128) });
        out.tag("c18:feed-previous-evaluations");
        match r {
            Ok(v) => {
                let got = parse(&v);
                if n < subs.len() {
                    let exp = subs[subs.len() - 1 - n];
                    if got != exp {
                        out.viol("C18:feed-previous-price", format!("GetPreviousPrice({}) = {:?} expected {:?}", n, got, exp));
                    }
                } else {
                    out.viol(
                        format!("C18:feed-previous-price-beyond-history:{}", if n == subs.len() { "exactly-one-past" } else { "further" }),
                        format!("GetPreviousPrice({}) = {:?} but only {} submissions exist", n, got, subs.len()),
                    );
                }
            }
            Err(e) => {
                if n < subs.len() {
                    out.viol(
                        "C18:feed-previous-price-refused-within-history",
                        format!("GetPreviousPrice({}) refused ({}) although {} submissions exist: {:?}", n, e, subs.len(), subs),
                    );
                }
            }
        }
    }
    // TWAP
    let first = subs[0].1;
    let age = now.saturating_sub(first);
    let mut ivs = vec![1u64, 7, 900, 3600];
    for x in [age.saturating_sub(1), age, age + 1] {
        if x > 0 {
            ivs.push(x);
        }
    }
    ivs.sort();
    ivs.dedup();
    let hist: Vec<(u64, u128)> = subs.iter().map(|(p, t)| (*t, *p)).collect();
    for iv in ivs {
        let r: Result<Uint128, String> = w.q(&f, &PfQuery::GetTwapPrice { key: "ETH".into(), interval: iv });
        match r {
            Ok(t) => {
                out.tag("c18:feed-twap-evaluations");
                let t = t.u128();
                let wp = window_prices(&hist, now, iv);
                let (lo, hi) = (*wp.iter().min().unwrap(), *wp.iter().max().unwrap());
                if t < lo || t > hi {
                    out.viol(
                        format!("C18:feed-twap-outside-submitted-prices:{}", if iv > age { "interval-longer-than-history" } else { "interval-within-history" }),
                        format!("GetTwapPrice({}) = {} outside [{}, {}] ; submissions (price, ts) {:?} now {}", iv, t, lo, hi, subs, now),
                    );
                }
            }
            Err(_) => out.tag("c18:feed-twap-refused"),
        }
    }
    Some(VSt { snap: post, mon })
}

pub fn run_c18(tier: Tier) -> i32 {
    let mut run = Run::new("C18", tier.clone());
    run.rule = "vAMM: every sequence of swaps (3 sizes x 2 directions) and block steps (1 s, 15 s, 14 min 59 s, 15 min, 1 h, 8 d) up to the depth bound, TwapPrice queried in every state over {1 s, 7 s, 15 min, 1 h, 1 week, age-1, age, age+1}; feed: every sequence of submissions (3 prices x timestamps {last, last+1, now-10, now}, batch) and time steps, GetPrice / GetPreviousPrice(0..n+1) / GetTwapPrice queried in every state; monitors: block-final price history, submission list; non-trivial = a TWAP / latest / previous evaluation compared with the monitor".into();
    run.nontrivial = vec!["c18:twap-evaluations".into(), "c18:feed-twap-evaluations".into(), "c18:feed-previous-evaluations".into(), "c18:feed-latest-evaluations".into()];
    run.assumptions = vec!["a query that errors or panics gives no value; it is counted, not alarmed (safety reading)".into()];
    let dd = 1_000_000u128;
    let m = VModel {
        cfg: VCfg { quote_reserve: 1000 * dd, base_reserve: 100 * dd, decimals: 6, fluct: 0, real_feed: false },
        oracle: step_c18,
        alpha: alpha_c18,
        init_mon: Value::Null,
        amounts: tier.pick(vec![7 * dd + 3, 250 * dd], vec![7 * dd + 3, 40 * dd, 250 * dd]),
        secs: tier.pick(vec![0, 1, 15, 899, 900, 3600, 691_200], vec![0, 1, 15, 899, 900, 3600, 691_200]),
    };
    run.explore("vAMM TWAP", vparams(&m), &m, &[vec![]], &Limits::new(tier.pick(5, 6)));
    // a long history: trades in 120 consecutive 10-second blocks, then every sequence to the bound
    let mut busy = vec![];
    for i in 0..120 {
        busy.push(VAct::SwapIn { add: i % 2 == 0, quote: 7 * dd + 3, limit: 0, over: true });
        busy.push(VAct::Blk { secs: 10, ms: 0 });
    }
    run.explore("vAMM TWAP after 120 busy blocks", vparams(&m), &m, &[busy], &Limits::new(tier.pick(2, 3)));
    let mut p = VModel {
        cfg: VCfg { quote_reserve: 1000 * dd, base_reserve: 100 * dd, decimals: 6, fluct: 0, real_feed: true },
        oracle: step_c18_feed,
        alpha: alpha_c18_feed,
        init_mon: Value::Null,
        amounts: vec![10 * dd, 12 * dd + 1, 7 * dd],
        secs: vec![1, 15, 900, 3600],
    };
    let mut pv = vparams(&p);
    pv["feed"] = json!(true);
    if tier == Tier::Quick {
        p.amounts = vec![10 * dd, 12 * dd + 1];
        pv = vparams(&p);
        pv["feed"] = json!(true);
    }
    run.explore("price feed", pv, &p, &[vec![]], &Limits::new(tier.pick(5, 6)));
    run.finish()
}

#[allow(dead_code)]
fn unused(_: BTreeMap<u8, u8>) {}
