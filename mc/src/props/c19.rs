//! C19: the signed integer type against exact arithmetic, exhaustively over a closed value set.
use std::cmp::Ordering;
use std::collections::BTreeSet;
use std::str::FromStr;

use cosmwasm_std::{Uint128, Uint256};
use margined_common::integer::Integer;
use serde_json::json;

use crate::evidence::*;
use crate::world::IN_CONTRACT;

/// exact integer: sign and 256-bit magnitude, zero normalised
#[derive(Clone, Copy, Debug, PartialEq, Eq)]
struct X {
    neg: bool,
    mag: Uint256,
}
impl X {
    fn of(i: &Integer) -> X {
        X::norm(i.negative, Uint256::from(i.value))
    }
    fn norm(neg: bool, mag: Uint256) -> X {
        X {
            neg: neg && !mag.is_zero(),
            mag,
        }
    }
    fn add(self, o: X) -> X {
        if self.neg == o.neg {
            X::norm(self.neg, self.mag + o.mag)
        } else if self.mag >= o.mag {
            X::norm(self.neg, self.mag - o.mag)
        } else {
            X::norm(o.neg, o.mag - self.mag)
        }
    }
    fn negate(self) -> X {
        X::norm(!self.neg, self.mag)
    }
    fn sub(self, o: X) -> X {
        self.add(o.negate())
    }
    fn mul(self, o: X) -> X {
        X::norm(self.neg != o.neg, self.mag * o.mag)
    }
    fn div(self, o: X) -> Option<X> {
        if o.mag.is_zero() {
            None
        } else {
            Some(X::norm(self.neg != o.neg, self.mag / o.mag))
        }
    }
    fn fits(self) -> bool {
        self.mag <= Uint256::from(u128::MAX)
    }
    fn cmp(self, o: X) -> Ordering {
        match (self.neg, o.neg) {
            (false, true) => Ordering::Greater,
            (true, false) => Ordering::Less,
            (false, false) => self.mag.cmp(&o.mag),
            (true, true) => o.mag.cmp(&self.mag),
        }
    }
    fn is_zero(self) -> bool {
        self.mag.is_zero()
    }
    fn show(self) -> String {
        format!("{}{}", if self.neg { "-" } else { "" }, self.mag)
    }
}

fn quiet<T>(f: impl FnOnce() -> T) -> Option<T> {
    let was = IN_CONTRACT.with(|c| c.replace(true));
    let r = std::panic::catch_unwind(std::panic::AssertUnwindSafe(f));
    IN_CONTRACT.with(|c| c.set(was));
    r.ok()
}

type Rep = (u128, bool);
fn rep(i: &Integer) -> Rep {
    (i.value.u128(), i.negative)
}
fn unrep(r: &Rep) -> Integer {
    Integer {
        value: Uint128::new(r.0),
        negative: r.1,
    }
}

fn base_values() -> BTreeSet<Rep> {
    let mags: Vec<u128> = vec![
        0,
        1,
        2,
        3,
        7,
        1_000_000,
        1u128 << 63,
        (1u128 << 64) - 1,
        1u128 << 64,
        (1u128 << 127) - 1,
        1u128 << 127,
        u128::MAX - 1,
        u128::MAX,
    ];
    let mut s = BTreeSet::new();
    for m in &mags {
        // every public constructor
        s.insert(rep(&Integer::new_positive(*m)));
        s.insert(rep(&Integer::new_negative(*m)));
        s.insert(rep(&Integer::from(*m)));
        s.insert(rep(&Integer::from(Uint128::new(*m))));
        s.insert(rep(&Integer::new_positive(*m).invert_sign()));
        s.insert(rep(&Integer::new_negative(*m).invert_sign()));
        if let Ok(i) = Integer::from_str(&m.to_string()) {
            s.insert(rep(&i));
        }
        if let Ok(i) = Integer::from_str(&format!("-{}", m)) {
            s.insert(rep(&i));
        }
        if *m <= i128::MAX as u128 {
            s.insert(rep(&Integer::from(*m as i128)));
            s.insert(rep(&Integer::from(-(*m as i128))));
        }
        if *m <= i64::MAX as u128 {
            s.insert(rep(&Integer::from(*m as i64)));
            s.insert(rep(&Integer::from(-(*m as i64))));
            s.insert(rep(&Integer::from(*m as u64)));
        }
    }
    s.insert(rep(&Integer::from(i128::MIN)));
    s.insert(rep(&Integer::from(i64::MIN)));
    s.insert(rep(&Integer::zero()));
    s.insert(rep(&Integer::ZERO));
    s.insert(rep(&Integer::default()));
    s.insert(rep(&Integer::MAX));
    s.insert(rep(&Integer::MIN));
    s
}

struct Acc {
    evals: u64,
    viols: std::collections::BTreeMap<String, (u64, String)>,
    results: BTreeSet<Rep>,
    zero_results: u64,
    overflow_cases: u64,
}
impl Acc {
    fn v(&mut self, sig: String, detail: String) {
        let e = self.viols.entry(sig).or_insert((0, detail));
        e.0 += 1;
    }
}

/// consistency clauses on one value `r` produced by `how`
fn check_value(acc: &mut Acc, r: &Integer, how: &str) {
    let x = X::of(r);
    let zero = Integer::zero();
    acc.evals += 1;
    if x.is_zero() {
        acc.zero_results += 1;
        if !(*r == zero) {
            acc.v(format!("C19:zero-result-not-equal-to-zero:{}", how), format!("{:?} from {}", r, how));
        }
        if *r < zero || r.cmp(&zero) == Ordering::Less || r.partial_cmp(&zero) == Some(Ordering::Less) {
            acc.v(format!("C19:zero-result-less-than-zero:{}", how), format!("{:?} from {}", r, how));
        }
        if r.is_negative() {
            acc.v(format!("C19:zero-result-is-negative:{}", how), format!("{:?} from {}", r, how));
        }
        if r.to_string() != "0" {
            acc.v(format!("C19:zero-result-does-not-print-0:{}", how), format!("{:?} prints {}", r, r));
        }
        if !r.is_zero() {
            acc.v(format!("C19:zero-result-not-is-zero:{}", how), format!("{:?}", r));
        }
    } else {
        if r.is_negative() != x.neg {
            acc.v(format!("C19:is-negative-wrong:{}", how), format!("{:?}", r));
        }
        if r.is_zero() {
            acc.v(format!("C19:is-zero-wrong:{}", how), format!("{:?}", r));
        }
    }
    if r.is_positive() == r.is_negative() {
        acc.v(format!("C19:sign-predicates-inconsistent:{}", how), format!("{:?}", r));
    }
    // decimal string form
    let s = r.to_string();
    if s != x.show() {
        acc.v(format!("C19:display-wrong:{}", how), format!("{:?} prints {} expected {}", r, s, x.show()));
    }
    match quiet(|| Integer::from_str(&s)) {
        Some(Ok(back)) => {
            if !(back == *r) || X::of(&back) != x {
                acc.v(format!("C19:parse-of-display-not-equal:{}", how), format!("{:?} prints {} which parses to {:?}", r, s, back));
            }
        }
        _ => acc.v(format!("C19:display-does-not-parse:{}", how), format!("{:?} prints {}", r, s)),
    }
    // serde round trip
    match serde_json::to_string(r).ok().and_then(|j| serde_json::from_str::<Integer>(&j).ok()) {
        Some(back) => {
            if !(back == *r) {
                acc.v(format!("C19:serde-round-trip-not-equal:{}", how), format!("{:?} -> {:?}", r, back));
            }
        }
        None => acc.v(format!("C19:serde-round-trip-failed:{}", how), format!("{:?}", r)),
    }
}

fn check_pair(acc: &mut Acc, a: &Integer, b: &Integer, collect: bool) {
    let (xa, xb) = (X::of(a), X::of(b));
    // comparison and equality
    acc.evals += 3;
    let exp = xa.cmp(xb);
    if a.cmp(b) != exp {
        acc.v("C19:cmp-disagrees".into(), format!("cmp({:?},{:?}) = {:?} expected {:?}", a, b, a.cmp(b), exp));
    }
    if a.partial_cmp(b) != Some(exp) {
        acc.v("C19:partial-cmp-disagrees".into(), format!("partial_cmp({:?},{:?}) = {:?} expected {:?}", a, b, a.partial_cmp(b), exp));
    }
    if (a == b) != (exp == Ordering::Equal) {
        acc.v("C19:eq-disagrees".into(), format!("({:?} == {:?}) = {} but exact comparison is {:?}", a, b, a == b, exp));
    }
    if (a < b) != (exp == Ordering::Less) || (a > b) != (exp == Ordering::Greater) {
        acc.v("C19:lt-gt-disagree".into(), format!("{:?} vs {:?}", a, b));
    }
    // binary operations
    let ops: [(&str, Option<X>); 4] = [
        ("add", Some(xa.add(xb))),
        ("sub", Some(xa.sub(xb))),
        ("mul", Some(xa.mul(xb))),
        ("div", xa.div(xb)),
    ];
    for (name, exact) in ops {
        let (a, b) = (*a, *b);
        let unchecked: Option<Integer> = match name {
            "add" => quiet(|| a + b),
            "sub" => quiet(|| a - b),
            "mul" => quiet(|| a * b),
            _ => quiet(|| a / b),
        };
        let checked: Option<Integer> = match name {
            "add" => quiet(|| a.checked_add(b).ok()).flatten(),
            "sub" => quiet(|| a.checked_sub(b).ok()).flatten(),
            "mul" => quiet(|| a.checked_mul(b).ok()).flatten(),
            _ => quiet(|| a.checked_div(b).ok()).flatten(),
        };
        // the compound-assignment form of the operator must be the operator
        let assigned: Option<Integer> = match name {
            "add" => quiet(|| {
                let mut t = a;
                t += b;
                t
            }),
            "sub" => quiet(|| {
                let mut t = a;
                t -= b;
                t
            }),
            "mul" => quiet(|| {
                let mut t = a;
                t *= b;
                t
            }),
            _ => quiet(|| {
                let mut t = a;
                t /= b;
                t
            }),
        };
        acc.evals += 1;
        match (&unchecked, &assigned) {
            (Some(u), Some(t)) => {
                if X::of(u) != X::of(t) || !(u == t) {
                    acc.v(format!("C19:{}-assign-disagrees-with-operator", name), format!("{:?} {}= {:?} gives {:?} but the operator gives {:?}", a, name, b, t, u));
                }
                check_value(acc, t, &format!("{}_assign", name));
            }
            (Some(_), None) | (None, Some(_)) => {
                acc.v(format!("C19:{}-assign-panics-differently", name), format!("{:?} {} {:?}: operator {:?} assign {:?}", a, name, b, unchecked, assigned));
            }
            _ => {}
        }
        acc.evals += 2;
        let representable = exact.map(|e| e.fits()).unwrap_or(false);
        if !representable {
            acc.overflow_cases += 1;
        }
        match (representable, &checked) {
            (true, None) => acc.v(format!("C19:checked-{}-fails-though-representable", name), format!("{:?} {} {:?} exact {}", a, name, b, exact.unwrap().show())),
            (false, Some(r)) => acc.v(format!("C19:checked-{}-succeeds-on-overflow-or-div0", name), format!("{:?} {} {:?} = {:?}", a, name, b, r)),
            _ => {}
        }
        if let Some(c) = &checked {
            if let Some(e) = exact {
                if X::of(c) != e {
                    acc.v(format!("C19:checked-{}-wrong-value", name), format!("{:?} {} {:?} = {:?} expected {}", a, name, b, c, e.show()));
                }
            }
            match &unchecked {
                Some(u) => {
                    if X::of(u) != X::of(c) || !(u == c) {
                        acc.v(format!("C19:checked-and-unchecked-{}-disagree", name), format!("{:?} {} {:?}: checked {:?} unchecked {:?}", a, name, b, c, u));
                    }
                }
                None => acc.v(format!("C19:unchecked-{}-panics-though-checked-succeeds", name), format!("{:?} {} {:?}", a, name, b)),
            }
            check_value(acc, c, &format!("checked_{}", name));
            if collect {
                acc.results.insert(rep(c));
            }
        }
        if let Some(u) = &unchecked {
            if let Some(e) = exact {
                if e.fits() && X::of(u) != e {
                    acc.v(format!("C19:unchecked-{}-wrong-value", name), format!("{:?} {} {:?} = {:?} expected {}", a, name, b, u, e.show()));
                }
                if !e.fits() {
                    acc.v(format!("C19:unchecked-{}-wraps-on-overflow", name), format!("{:?} {} {:?} = {:?} exact {}", a, name, b, u, e.show()));
                }
            }
            check_value(acc, u, name);
            if collect {
                acc.results.insert(rep(u));
            }
        }
    }
}

fn check_unary(acc: &mut Acc, a: &Integer, collect: bool) {
    let xa = X::of(a);
    let n = a.invert_sign();
    if X::of(&n) != xa.negate() {
        acc.v("C19:negation-wrong".into(), format!("{:?} -> {:?}", a, n));
    }
    check_value(acc, &n, "invert_sign");
    let ab = a.abs();
    if X::of(&ab) != X::norm(false, xa.mag) {
        acc.v("C19:abs-wrong".into(), format!("{:?} -> {:?}", a, ab));
    }
    check_value(acc, &ab, "abs");
    check_value(acc, a, "constructor");
    if collect {
        acc.results.insert(rep(&n));
        acc.results.insert(rep(&ab));
    }
}

fn sweep(values: &[Rep], collect: bool, workers: usize) -> Acc {
    let chunk = (values.len() + workers - 1) / workers.max(1);
    let parts: Vec<Acc> = std::thread::scope(|sc| {
        let hs: Vec<_> = values
            .chunks(chunk.max(1))
            .map(|part| {
                sc.spawn(move || {
                    let mut acc = Acc {
                        evals: 0,
                        viols: Default::default(),
                        results: BTreeSet::new(),
                        zero_results: 0,
                        overflow_cases: 0,
                    };
                    for ra in part {
                        let a = unrep(ra);
                        check_unary(&mut acc, &a, collect);
                        for rb in values {
                            let b = unrep(rb);
                            check_pair(&mut acc, &a, &b, collect);
                        }
                    }
                    acc
                })
            })
            .collect();
        hs.into_iter().map(|h| h.join().unwrap()).collect()
    });
    let mut tot = Acc {
        evals: 0,
        viols: Default::default(),
        results: BTreeSet::new(),
        zero_results: 0,
        overflow_cases: 0,
    };
    for p in parts {
        tot.evals += p.evals;
        tot.zero_results += p.zero_results;
        tot.overflow_cases += p.overflow_cases;
        tot.results.extend(p.results);
        for (k, (n, d)) in p.viols {
            let e = tot.viols.entry(k).or_insert((0, d));
            e.0 += n;
        }
    }
    tot
}

pub fn run_c19(tier: Tier) -> i32 {
    let mut run = Run::new("C19", tier.clone());
    run.rule = "values: every public constructor applied to magnitudes {0,1,2,3,7,1e6,2^63,2^64-1,2^64,2^127-1,2^127,2^128-2,2^128-1} with both signs (both encodings of zero), closed once (quick) / twice, capped (thorough) under + - * /; every ordered pair x {+,-,*,/ checked and unchecked, cmp, partial_cmp, ==, <, >} and every value x {negation, abs, sign predicates, Display, FromStr(Display), serde}; reference = exact sign/256-bit-magnitude arithmetic; a 'state' is a distinct value, a 'transition' an operator application; non-trivial = evaluations whose exact result is zero or not representable".into();
    run.nontrivial = vec!["c19:zero-results".into(), "c19:overflow-or-div0-cases".into()];
    let workers = crate::explorer::workers();
    let v0: Vec<Rep> = base_values().into_iter().collect();
    let a0 = sweep(&v0, true, workers);
    let mut v1: BTreeSet<Rep> = v0.iter().cloned().collect();
    v1.extend(a0.results.iter().cloned());
    let mut v1: Vec<Rep> = v1.into_iter().collect();
    let cap = tier.pick(1200, 4000);
    let mut capped = false;
    if v1.len() > cap {
        // keep the base values and an evenly spaced selection of the rest (deterministic)
        let base: BTreeSet<Rep> = v0.iter().cloned().collect();
        let rest: Vec<Rep> = v1.iter().filter(|r| !base.contains(r)).cloned().collect();
        let keep = cap - base.len().min(cap);
        let stride = (rest.len() + keep - 1) / keep.max(1);
        let mut sel: Vec<Rep> = base.into_iter().collect();
        sel.extend(rest.into_iter().step_by(stride.max(1)));
        v1 = sel;
        capped = true;
    }
    let a1 = sweep(&v1, tier == Tier::Thorough, workers);
    let mut viols = a0.viols;
    for (k, (n, d)) in a1.viols {
        let e = viols.entry(k).or_insert((0, d));
        e.0 += n;
    }
    let mut extra_evals = 0u64;
    let mut extra_zero = 0u64;
    let mut extra_over = 0u64;
    if tier == Tier::Thorough {
        // second closure round: results of the first closure become operands (capped selection)
        let known: BTreeSet<Rep> = v1.iter().cloned().collect();
        let fresh: Vec<Rep> = a1.results.iter().filter(|r| !known.contains(r)).cloned().collect();
        let keep = cap;
        let stride = (fresh.len() + keep - 1) / keep.max(1);
        let mut v2: Vec<Rep> = v0.clone();
        v2.extend(fresh.iter().step_by(stride.max(1)).cloned());
        if fresh.len() > keep {
            capped = true;
        }
        let a2 = sweep(&v2, false, workers);
        for (k, (n, d)) in a2.viols {
            let e = viols.entry(k).or_insert((0, d));
            e.0 += n;
        }
        extra_evals = a2.evals;
        extra_zero = a2.zero_results;
        extra_over = a2.overflow_cases;
        run.tag("c19:second-closure-values-evaluated", v2.len() as u64);
        v1.extend(v2.into_iter().filter(|r| !known.contains(r)));
    }
    run.states = v1.len() as u64;
    run.transitions = a0.evals + a1.evals + extra_evals;
    run.executions = run.transitions;
    run.tag("c19:zero-results", a0.zero_results + a1.zero_results + extra_zero);
    run.tag("c19:overflow-or-div0-cases", a0.overflow_cases + a1.overflow_cases + extra_over);
    run.tag("c19:base-values", v0.len() as u64);
    run.tag("c19:closure-values-evaluated", v1.len() as u64);
    if capped {
        run.exhaustive = false;
        run.caps.push(format!("closure capped at {} values (base set complete, evenly spaced selection of derived values); the depth-0 sweep over all {} base values is complete", cap, v0.len()));
    }
    run.explorations.push(json!({"name": "integer closure", "base_values": v0.len(), "closure_values": v1.len(), "evaluations": run.transitions}));
    run.samples.push(json!({"pair": ["-5", "5"], "ops": ["+", "-", "*", "/", "cmp", "=="]}));
    run.samples.push(json!({"values": v0.iter().take(8).map(|r| format!("{}{}", if r.1 { "-" } else { "" }, r.0)).collect::<Vec<_>>()}));
    for (sig, (n, d)) in viols {
        run.found.push(FoundRec {
            exploration: "integer closure".into(),
            params: json!({}),
            sig,
            detail: d,
            count: n,
            path: json!([]),
            depth: 0,
        });
    }
    run.finish()
}
