//! Level-synchronous parallel breadth-first explicit-state exploration.
//!
//! Deterministic by construction: workers process contiguous slices of the frontier and only
//! *produce* (parent, action, result) tuples; merging into the visited set happens on one thread in
//! (parent, action) order, so state numbering, counts and first counterexamples do not depend on
//! thread timing.
use std::collections::{BTreeMap, HashMap};
use std::sync::atomic::{AtomicBool, Ordering};
use std::time::Instant;

pub type Key = [u8; 16];

#[derive(Clone, Debug)]
pub struct Viol {
    /// signature: violated clause / call site / narrow predicate (used for known-finding matching)
    pub sig: String,
    pub detail: String,
}

#[derive(Default)]
pub struct StepOut {
    pub viols: Vec<Viol>,
    /// counters of non-trivial oracle evaluations and outcome histogram
    pub tags: Vec<(String, u64)>,
    /// implementation transactions executed while evaluating this step (≥1; fault sweeps add more)
    pub executions: u64,
}
impl StepOut {
    pub fn viol(&mut self, sig: impl Into<String>, detail: impl Into<String>) {
        self.viols.push(Viol {
            sig: sig.into(),
            detail: detail.into(),
        });
    }
    pub fn tag(&mut self, t: impl Into<String>) {
        self.tags.push((t.into(), 1));
    }
    pub fn tagn(&mut self, t: impl Into<String>, n: u64) {
        self.tags.push((t.into(), n));
    }
}

pub trait Model: Sync {
    type Ctx;
    type State: Clone + Send + Sync;
    type Act: Clone + Send + Sync + std::fmt::Debug;
    fn make_ctx(&self) -> Self::Ctx;
    /// the initial deployment
    fn initial(&self, ctx: &mut Self::Ctx) -> Self::State;
    fn key(&self, s: &Self::State) -> Key;
    fn actions(&self, ctx: &mut Self::Ctx, s: &Self::State) -> Vec<Self::Act>;
    /// Execute `a` from `s` on the implementation, evaluate the oracle. Return the successor state,
    /// or None when the successor must not be expanded (diverged twin, pruned).
    fn step(
        &self,
        ctx: &mut Self::Ctx,
        s: &Self::State,
        a: &Self::Act,
        out: &mut StepOut,
    ) -> Option<Self::State>;
    /// oracle evaluated once on every distinct state (including seeds)
    fn state_check(&self, _ctx: &mut Self::Ctx, _s: &Self::State, _out: &mut StepOut) {}
}

#[derive(Clone, Debug)]
pub struct Found<A> {
    pub sig: String,
    pub detail: String,
    pub count: u64,
    pub seed: usize,
    pub path: Vec<A>,
    pub depth: usize,
}

pub struct Report<A> {
    pub states: u64,
    pub transitions: u64,
    pub executions: u64,
    pub levels: Vec<(usize, u64, u64)>, // depth, new states, transitions at this level
    pub tags: BTreeMap<String, u64>,
    pub found: Vec<Found<A>>,
    pub capped: Option<String>,
    pub depth_completed: usize,
    pub wall_s: f64,
    pub sample_paths: Vec<Vec<A>>,
}

pub struct Limits {
    pub depth: usize,
    pub max_states: u64,
    pub max_secs: f64,
    pub workers: usize,
}

impl Limits {
    pub fn new(depth: usize) -> Limits {
        Limits {
            depth,
            max_states: 6_000_000,
            max_secs: 3000.0,
            workers: workers(),
        }
    }
}

pub fn workers() -> usize {
    std::env::var("VERIF_WORKERS")
        .ok()
        .and_then(|x| x.parse().ok())
        .unwrap_or_else(|| {
            std::thread::available_parallelism()
                .map(|n| n.get())
                .unwrap_or(4)
                .min(16)
        })
}

struct Produced<M: Model> {
    parent: u32,
    act_idx: u16,
    act: M::Act,
    key: Option<Key>,
    state: Option<M::State>,
    out: StepOut,
}

/// `seeds`: action prefixes executed (through `step`, oracle on) from the initial deployment; the
/// empty prefix is the initial state itself.
pub fn bfs<M: Model>(model: &M, seeds: &[Vec<M::Act>], lim: &Limits) -> Report<M::Act> {
    let t0 = Instant::now();
    // visited: key -> state index
    let mut visited: HashMap<Key, u32> = HashMap::new();
    // per state: (parent or u32::MAX, action taken, seed index)
    let mut parents: Vec<(u32, Option<M::Act>, usize)> = Vec::new();
    let mut frontier: Vec<(u32, M::State)> = Vec::new();
    let mut tags: BTreeMap<String, u64> = BTreeMap::new();
    let mut found: BTreeMap<String, Found<M::Act>> = BTreeMap::new();
    let mut executions = 0u64;
    let mut transitions = 0u64;
    let mut levels = vec![];
    let mut capped = None;

    {
        let mut ctx = model.make_ctx();
        for (i, prefix) in seeds.iter().enumerate() {
            let mut s = model.initial(&mut ctx);
            let mut dead = false;
            for (j, a) in prefix.iter().enumerate() {
                let mut out = StepOut::default();
                let ns = model.step(&mut ctx, &s, a, &mut out);
                if out.executions == 0 {
                    out.executions = 1;
                }
                transitions += 1;
                executions += out.executions;
                for (t, n) in out.tags {
                    *tags.entry(t).or_default() += n;
                }
                for v in out.viols {
                    found.entry(v.sig.clone()).or_insert(Found {
                        sig: v.sig,
                        detail: v.detail,
                        count: 0,
                        seed: i,
                        path: prefix[..=j].to_vec(),
                        depth: 0,
                    }).count += 1;
                }
                match ns {
                    Some(ns) => s = ns,
                    None => {
                        dead = true;
                        break;
                    }
                }
            }
            if dead {
                continue;
            }
            let k = model.key(&s);
            if visited.contains_key(&k) {
                continue;
            }
            let idx = parents.len() as u32;
            visited.insert(k, idx);
            parents.push((u32::MAX, None, i));
            let mut out = StepOut::default();
            model.state_check(&mut ctx, &s, &mut out);
            absorb::<M>(seeds, &mut tags, &mut found, &parents, idx, None, 0, out, &mut executions);
            frontier.push((idx, s));
        }
    }
    levels.push((0usize, frontier.len() as u64, 0u64));
    let mut depth_completed = 0;

    for d in 1..=lim.depth {
        if frontier.is_empty() {
            depth_completed = lim.depth;
            break;
        }
        let stop = AtomicBool::new(false);
        let nw = lim.workers.max(1).min(frontier.len().max(1));
        let chunk = (frontier.len() + nw - 1) / nw;
        let visited_ref = &visited;
        let deadline = lim.max_secs;
        // states of the last level are never expanded: keep only their keys (most of the memory)
        let keep_states = d < lim.depth;
        let results: Vec<Vec<Produced<M>>> = std::thread::scope(|sc| {
            let mut hs = vec![];
            for part in frontier.chunks(chunk) {
                let stop = &stop;
                hs.push(sc.spawn(move || {
                    let mut ctx = model.make_ctx();
                    let mut res: Vec<Produced<M>> = Vec::new();
                    for (pidx, s) in part {
                        if stop.load(Ordering::Relaxed) {
                            break;
                        }
                        if t0.elapsed().as_secs_f64() > deadline {
                            stop.store(true, Ordering::Relaxed);
                            break;
                        }
                        let acts = model.actions(&mut ctx, s);
                        for (ai, a) in acts.iter().enumerate() {
                            let mut out = StepOut::default();
                            let ns = model.step(&mut ctx, s, a, &mut out);
                            if out.executions == 0 {
                                out.executions = 1;
                            }
                            let (key, state) = match ns {
                                Some(ns) => {
                                    let k = model.key(&ns);
                                    if visited_ref.contains_key(&k) || !keep_states {
                                        (Some(k), None)
                                    } else {
                                        (Some(k), Some(ns))
                                    }
                                }
                                None => (None, None),
                            };
                            res.push(Produced {
                                parent: *pidx,
                                act_idx: ai as u16,
                                act: a.clone(),
                                key,
                                state,
                                out,
                            });
                        }
                    }
                    res
                }));
            }
            hs.into_iter().map(|h| h.join().unwrap()).collect()
        });
        let timed_out = stop.load(Ordering::Relaxed);
        let mut next: Vec<(u32, M::State)> = Vec::new();
        let mut new_here = 0u64;
        let mut trans_here = 0u64;
        let mut new_checks: Vec<u32> = vec![];
        for part in results {
            for p in part {
                trans_here += 1;
                let _ = p.act_idx;
                absorb::<M>(
                    seeds,
                    &mut tags,
                    &mut found,
                    &parents,
                    p.parent,
                    Some(&p.act),
                    d,
                    p.out,
                    &mut executions,
                );
                if let Some(k) = p.key {
                    if !visited.contains_key(&k) {
                        let idx = parents.len() as u32;
                        visited.insert(k, idx);
                        let seed = parents[p.parent as usize].2;
                        parents.push((p.parent, Some(p.act), seed));
                        new_here += 1;
                        new_checks.push(idx);
                        if let Some(st) = p.state {
                            next.push((idx, st));
                        }
                    }
                }
            }
        }
        transitions += trans_here;
        // state oracle on new states (sequential over a dedicated ctx only if the model defines it;
        // cheap default is a no-op)
        {
            let mut ctx = model.make_ctx();
            for (idx, st) in &next {
                let mut out = StepOut::default();
                model.state_check(&mut ctx, st, &mut out);
                if !out.viols.is_empty() || !out.tags.is_empty() {
                    absorb::<M>(seeds, &mut tags, &mut found, &parents, *idx, None, d, out, &mut executions);
                }
            }
        }
        levels.push((d, new_here, trans_here));
        if timed_out {
            capped = Some(format!(
                "wall-clock cap {}s hit while expanding depth {}; depth {} fully covered",
                lim.max_secs,
                d,
                d - 1
            ));
            break;
        }
        depth_completed = d;
        frontier = next;
        if visited.len() as u64 > lim.max_states && d < lim.depth {
            capped = Some(format!(
                "state cap {} hit after depth {}; depth {} fully covered",
                lim.max_states, d, d
            ));
            break;
        }
    }

    // sample paths: up to 3 deepest states
    let mut sample_paths = vec![];
    let n = parents.len();
    for idx in [n.saturating_sub(1), n / 2, n / 3] {
        if n > 0 {
            sample_paths.push(path_of::<M>(seeds, &parents, idx as u32, None));
        }
    }
    Report {
        states: visited.len() as u64,
        transitions,
        executions,
        levels,
        tags,
        found: found.into_values().collect(),
        capped,
        depth_completed,
        wall_s: t0.elapsed().as_secs_f64(),
        sample_paths,
    }
}

fn path_of<M: Model>(
    seeds: &[Vec<M::Act>],
    parents: &[(u32, Option<M::Act>, usize)],
    mut idx: u32,
    last: Option<&M::Act>,
) -> Vec<M::Act> {
    let mut p = vec![];
    if let Some(a) = last {
        p.push(a.clone());
    }
    let mut seed = 0;
    while idx != u32::MAX {
        let (par, act, sd) = &parents[idx as usize];
        if let Some(a) = act {
            p.push(a.clone());
        }
        seed = *sd;
        idx = *par;
    }
    p.reverse();
    let mut full = seeds.get(seed).cloned().unwrap_or_default();
    full.extend(p);
    full
}

#[allow(clippy::too_many_arguments)]
fn absorb<M: Model>(
    seeds: &[Vec<M::Act>],
    tags: &mut BTreeMap<String, u64>,
    found: &mut BTreeMap<String, Found<M::Act>>,
    parents: &[(u32, Option<M::Act>, usize)],
    parent: u32,
    act: Option<&M::Act>,
    depth: usize,
    out: StepOut,
    executions: &mut u64,
) {
    *executions += out.executions;
    for (t, n) in out.tags {
        *tags.entry(t).or_default() += n;
    }
    for v in out.viols {
        match found.get_mut(&v.sig) {
            Some(f) => f.count += 1,
            None => {
                let seed = parents[parent as usize].2;
                found.insert(
                    v.sig.clone(),
                    Found {
                        sig: v.sig,
                        detail: v.detail,
                        count: 1,
                        seed,
                        path: path_of::<M>(seeds, parents, parent, act),
                        depth,
                    },
                );
            }
        }
    }
}

pub fn hash_parts(parts: &[&[u8]]) -> Key {
    use sha3::{Digest, Sha3_256};
    let mut h = Sha3_256::new();
    for p in parts {
        h.update((p.len() as u64).to_le_bytes());
        h.update(p);
    }
    let r = h.finalize();
    let mut k = [0u8; 16];
    k.copy_from_slice(&r[..16]);
    k
}

pub fn hash_snap(kv: &crate::taps::Kv, height: u64, nanos: u64, extra: &[u8]) -> Key {
    use sha3::{Digest, Sha3_256};
    let mut h = Sha3_256::new();
    for (k, v) in kv {
        h.update((k.len() as u32).to_le_bytes());
        h.update(k);
        h.update((v.len() as u32).to_le_bytes());
        h.update(v);
    }
    h.update(height.to_le_bytes());
    h.update(nanos.to_le_bytes());
    h.update((extra.len() as u32).to_le_bytes());
    h.update(extra);
    let r = h.finalize();
    let mut k = [0u8; 16];
    k.copy_from_slice(&r[..16]);
    k
}
