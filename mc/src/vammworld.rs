//! vAMM-only and price-feed-only deployments (the vAMM's margin engine is a plain account).
use cosmwasm_std::{Addr, Empty, Uint128};
use cw_multi_test::{AppBuilder, BankKeeper, ContractWrapper, Executor, WasmKeeper};
use margined_perp::margined_pricefeed::ExecuteMsg as PfExec;
use margined_perp::margined_vamm::{
    Direction, ExecuteMsg as VammExec, InstantiateMsg as VammInit, QueryMsg as VammQuery,
    StateResponse as VammState,
};
use serde::de::DeserializeOwned;
use serde::{Deserialize, Serialize};

use crate::taps::*;
use crate::world::{Outcome, Snap, IN_CONTRACT};

#[derive(Clone, Debug, Serialize, Deserialize, PartialEq)]
pub struct VCfg {
    pub quote_reserve: u128,
    pub base_reserve: u128,
    pub decimals: u8,
    pub fluct: u128,
    pub real_feed: bool,
}

#[derive(Clone, Debug, Serialize, Deserialize, PartialEq)]
pub enum VAct {
    SwapIn {
        add: bool,
        quote: u128,
        limit: u128,
        over: bool,
    },
    SwapOut {
        add: bool,
        base: u128,
        limit: u128,
    },
    Blk {
        secs: u64,
        /// additional milliseconds (block time has sub-second resolution)
        #[serde(default)]
        ms: u64,
    },
    /// SettleFunding sent by the configured margin engine
    Settle,
    /// SetOpen sent by the vAMM's owner (markets are paused and re-opened this way)
    SetOpen {
        open: bool,
    },
    /// feed world
    Append {
        price: u128,
        /// timestamp = now - back
        back: u64,
    },
    AppendMulti {
        prices: Vec<u128>,
        backs: Vec<u64>,
    },
}

pub struct VWorld {
    pub cfg: VCfg,
    pub app: MyApp,
    pub store: SnapStorage,
    pub tap: Tap,
    pub vamm: Addr,
    pub mock_pf: Addr,
    pub real_pf: Addr,
    pub init: Snap,
}

pub fn dir(add: bool) -> Direction {
    if add {
        Direction::AddToAmm
    } else {
        Direction::RemoveFromAmm
    }
}

impl VWorld {
    pub fn new(cfg: &VCfg) -> VWorld {
        let store = SnapStorage::default();
        let tap = Tap::default();
        let mut keeper: WasmKeeper<Empty, Empty> = WasmKeeper::new();
        let vamm_id = keeper.store_code(Box::new(ContractWrapper::new_with_empty(
            margined_vamm::contract::execute,
            margined_vamm::contract::instantiate,
            margined_vamm::contract::query,
        ))) as u64;
        let pf_id = keeper.store_code(Box::new(ContractWrapper::new_with_empty(
            mock_pricefeed::contract::execute,
            mock_pricefeed::contract::instantiate,
            mock_pricefeed::contract::query,
        ))) as u64;
        let rpf_id = keeper.store_code(Box::new(ContractWrapper::new(
            margined_pricefeed::contract::execute,
            margined_pricefeed::contract::instantiate,
            margined_pricefeed::contract::query,
        ))) as u64;
        let owner = Addr::unchecked("owner");
        let mut app: MyApp = AppBuilder::new()
            .with_storage(store.clone())
            .with_bank(TapBank {
                inner: BankKeeper::new(),
                tap: tap.clone(),
            })
            .with_custom(NoCustom)
            .with_wasm::<NoCustom, _>(TapWasm {
                inner: keeper,
                tap: tap.clone(),
            })
            .build(|_, _, _| {});
        let mock_pf = app
            .instantiate_contract(
                pf_id,
                owner.clone(),
                &margined_perp::margined_pricefeed::InstantiateMsg {
                    oracle_hub_contract: "oracle_hub".into(),
                },
                &[],
                "pf",
                None,
            )
            .unwrap();
        let real_pf = app
            .instantiate_contract(
                rpf_id,
                owner.clone(),
                &margined_perp::margined_pricefeed::InstantiateMsg {
                    oracle_hub_contract: "oracle_hub".into(),
                },
                &[],
                "rpf",
                None,
            )
            .unwrap();
        let feed = if cfg.real_feed {
            real_pf.clone()
        } else {
            mock_pf.clone()
        };
        let vamm = app
            .instantiate_contract(
                vamm_id,
                owner.clone(),
                &VammInit {
                    decimals: cfg.decimals,
                    pricefeed: feed.to_string(),
                    margin_engine: Some("engine".into()),
                    insurance_fund: Some("ifund".into()),
                    quote_asset: "USD".into(),
                    base_asset: "ETH".into(),
                    quote_asset_reserve: Uint128::new(cfg.quote_reserve),
                    base_asset_reserve: Uint128::new(cfg.base_reserve),
                    funding_period: 3600,
                    toll_ratio: Uint128::zero(),
                    spread_ratio: Uint128::zero(),
                    fluctuation_limit_ratio: Uint128::new(cfg.fluct),
                },
                &[],
                "vamm",
                None,
            )
            .unwrap();
        app.execute_contract(owner.clone(), vamm.clone(), &VammExec::SetOpen { open: true }, &[])
            .unwrap();
        let now = app.block_info().time.seconds();
        app.execute_contract(
            owner.clone(),
            mock_pf.clone(),
            &PfExec::AppendPrice {
                key: "ETH".into(),
                price: Uint128::new(10_000_000),
                timestamp: now,
            },
            &[],
        )
        .unwrap();
        app.update_block(|b| {
            b.height += 1;
            b.time = b.time.plus_seconds(15);
        });
        let init = Snap {
            kv: store.0.borrow().clone(),
            block: app.block_info(),
        };
        VWorld {
            cfg: cfg.clone(),
            app,
            store,
            tap,
            vamm,
            mock_pf,
            real_pf,
            init,
        }
    }
    pub fn snapshot(&self) -> Snap {
        Snap {
            kv: self.store.0.borrow().clone(),
            block: self.app.block_info(),
        }
    }
    pub fn restore(&mut self, s: &Snap) {
        *self.store.0.borrow_mut() = s.kv.clone();
        self.app.set_block(s.block.clone());
    }
    pub fn now(&self) -> u64 {
        self.app.block_info().time.seconds()
    }
    pub fn exec<T: Serialize + std::fmt::Debug>(&mut self, sender: &str, c: &Addr, msg: &T) -> Outcome {
        self.tap.reset(None);
        let snap = self.store.0.borrow().clone();
        IN_CONTRACT.with(|c| c.set(true));
        let r = std::panic::catch_unwind(std::panic::AssertUnwindSafe(|| {
            self.app
                .execute_contract(Addr::unchecked(sender), c.clone(), msg, &[])
        }));
        IN_CONTRACT.with(|c| c.set(false));
        let n = self.tap.counter.get();
        match r {
            Ok(Ok(_)) => Outcome {
                ok: true,
                panicked: false,
                err: String::new(),
                dispatches: n,
            },
            Ok(Err(e)) => Outcome {
                ok: false,
                panicked: false,
                err: format!("{:#}", e).chars().take(300).collect(),
                dispatches: n,
            },
            Err(_) => {
                *self.store.0.borrow_mut() = snap;
                Outcome {
                    ok: false,
                    panicked: true,
                    err: "PANIC".into(),
                    dispatches: n,
                }
            }
        }
    }
    pub fn q<T: DeserializeOwned, M: Serialize>(&self, c: &Addr, m: &M) -> Result<T, String> {
        let was = IN_CONTRACT.with(|c| c.replace(true));
        let r = std::panic::catch_unwind(std::panic::AssertUnwindSafe(|| {
            self.app
                .wrap()
                .query_wasm_smart::<T>(c.clone(), m)
                .map_err(|e| e.to_string())
        }));
        IN_CONTRACT.with(|c| c.set(was));
        match r {
            Ok(x) => x,
            Err(_) => Err("PANIC".into()),
        }
    }
    pub fn vq<T: DeserializeOwned>(&self, q: &VammQuery) -> Result<T, String> {
        self.q(&self.vamm, q)
    }
    pub fn state(&self) -> VammState {
        self.vq(&VammQuery::State {}).unwrap()
    }
    pub fn spot(&self) -> u128 {
        self.vq::<Uint128>(&VammQuery::SpotPrice {}).unwrap().u128()
    }
    /// swap events of the last execution: (quote, base)
    pub fn last_swap(&self) -> Option<(u128, u128)> {
        let log = self.tap.log.borrow();
        let d = log.first()?;
        let (_, attrs) = d.events.iter().find(|(ty, a)| {
            ty == "wasm" && a.iter().any(|(k, v)| k == "action" && v == "swap")
        })?;
        let get = |k: &str| -> u128 {
            attrs
                .iter()
                .find(|(kk, _)| kk == k)
                .and_then(|(_, v)| v.parse().ok())
                .unwrap_or(0)
        };
        Some((get("quote_asset_amount"), get("base_asset_amount")))
    }
    pub fn apply(&mut self, a: &VAct) -> Outcome {
        let v = self.vamm.clone();
        match a {
            VAct::SwapIn {
                add,
                quote,
                limit,
                over,
            } => self.exec(
                "engine",
                &v,
                &VammExec::SwapInput {
                    direction: dir(*add),
                    quote_asset_amount: Uint128::new(*quote),
                    base_asset_limit: Uint128::new(*limit),
                    can_go_over_fluctuation: *over,
                },
            ),
            VAct::SwapOut { add, base, limit } => self.exec(
                "engine",
                &v,
                &VammExec::SwapOutput {
                    direction: dir(*add),
                    base_asset_amount: Uint128::new(*base),
                    quote_asset_limit: Uint128::new(*limit),
                },
            ),
            VAct::Settle => self.exec("engine", &v, &VammExec::SettleFunding {}),
            VAct::SetOpen { open } => self.exec("owner", &v, &VammExec::SetOpen { open: *open }),
            VAct::Blk { secs, ms } => {
                self.tap.reset(None);
                self.app.update_block(|b| {
                    b.height += 1;
                    b.time = b.time.plus_seconds(*secs).plus_nanos(*ms * 1_000_000);
                });
                Outcome {
                    ok: true,
                    panicked: false,
                    err: String::new(),
                    dispatches: 0,
                }
            }
            VAct::Append { price, back } => {
                let ts = self.now().saturating_sub(*back);
                let f = self.real_pf.clone();
                self.exec(
                    "owner",
                    &f,
                    &PfExec::AppendPrice {
                        key: "ETH".into(),
                        price: Uint128::new(*price),
                        timestamp: ts,
                    },
                )
            }
            VAct::AppendMulti { prices, backs } => {
                let now = self.now();
                let f = self.real_pf.clone();
                self.exec(
                    "owner",
                    &f,
                    &PfExec::AppendMultiplePrice {
                        key: "ETH".into(),
                        prices: prices.iter().map(|p| Uint128::new(*p)).collect(),
                        timestamps: backs.iter().map(|b| now.saturating_sub(*b)).collect(),
                    },
                )
            }
        }
    }
    /// raw reserve snapshots of the vAMM: (index, quote, base, timestamp s, block height)
    pub fn raw_snapshots(&self) -> Vec<(u64, u128, u128, u64, u64)> {
        let mut p = crate::world::contract_prefix(self.vamm.as_str());
        p.extend(crate::world::len_prefixed(b"reserve_snapshot"));
        let m = self.store.0.borrow();
        let mut out = vec![];
        for (k, v) in m.iter() {
            if k.starts_with(&p) && k.len() == p.len() + 8 {
                let mut ib = [0u8; 8];
                ib.copy_from_slice(&k[p.len()..]);
                let j: serde_json::Value = serde_json::from_slice(v).unwrap_or_default();
                let g = |f: &str| -> u128 { j[f].as_str().and_then(|s| s.parse().ok()).unwrap_or(0) };
                let ts = j["timestamp"].as_str().and_then(|s| s.parse::<u128>().ok()).unwrap_or(0) / 1_000_000_000;
                out.push((
                    u64::from_be_bytes(ib),
                    g("quote_asset_reserve"),
                    g("base_asset_reserve"),
                    ts as u64,
                    j["block_height"].as_u64().unwrap_or(0),
                ));
            }
        }
        out.sort();
        out
    }
}
