//! Observations of an engine-level world before/after a transaction, taken through public queries,
//! balances and the dispatch log.
use std::collections::BTreeMap;

use cosmwasm_std::Uint128;
use margined_perp::margined_engine::Position;
use margined_perp::margined_vamm::{Direction, QueryMsg as VammQuery, StateResponse as VammState};

use crate::acts::*;
use crate::taps::*;
use crate::world::*;



#[derive(Clone, Debug)]
pub struct TraderObs {
    pub pos: Option<Position>,
    /// quote the vAMM would exchange for the whole position now (spot curve), -1 if query failed
    pub out_spot: i128,
    /// same, 15-minute TWAP
    pub out_twap: i128,
}

#[derive(Clone, Debug)]
pub struct VammObs {
    pub state: VammState,
    pub spot: u128,
    pub cum: i128,
    pub oracle: i128,
    pub registered: bool,
    /// per-block price band (lower, upper), None when the fluctuation limit is 0
    pub band: Option<(u128, u128)>,
}

#[derive(Clone, Debug)]
pub struct WorldObs {
    pub now: u64,
    pub height: u64,
    pub vamms: Vec<VammObs>,
    /// (vamm index, trader) -> obs
    pub traders: BTreeMap<(usize, String), TraderObs>,
    pub balances: BTreeMap<String, u128>,
    pub total_supply: Option<u128>,
    pub oi_notional: u128,
    pub prepaid_bad_debt: u128,
}

#[derive(Clone, Debug)]
pub struct Xfer {
    pub idx: u32,
    pub from: String,
    pub to: String,
    pub amt: u128,
    /// cw20 TransferFrom (pulled from `from` by the engine)
    pub pulled: bool,
    /// the account whose message caused it
    pub by: String,
    pub ok: bool,
}

#[derive(Clone, Debug)]
pub struct SwapEv {
    pub vamm: String,
    pub input_kind: bool, // true: swap_input
    pub direction: String,
    pub quote: u128,
    pub base: u128,
}

pub fn tracked_accounts(w: &World) -> Vec<String> {
    let mut v: Vec<String> = WALLETS.iter().map(|s| s.to_string()).collect();
    v.push("owner".into());
    v.push("bank".into());
    v.push("other_ifund".into());
    v.push(w.engine.to_string());
    v.push(w.ifund.to_string());
    v.push(w.fee_pool.to_string());
    v.push(w.mock_pf.to_string());
    v.push(w.real_pf.to_string());
    for x in &w.vamms {
        v.push(x.to_string());
    }
    if let Some(x) = &w.unregistered {
        v.push(x.to_string());
    }
    if let Some(x) = &w.vamm7 {
        v.push(x.to_string());
    }
    if let Some(t) = &w.token {
        v.push(t.to_string());
    }
    v
}

pub fn observe_trader(w: &World, v: usize, t: &str) -> TraderObs {
    let pos = w.pos(v, t);
    let (mut os, mut ot) = (0i128, 0i128);
    if let Some(p) = &pos {
        if !p.size.is_zero() {
            os = w
                .out_amount(v, p.direction.clone(), p.size.value.u128())
                .map(|x| x as i128)
                .unwrap_or(-1);
            ot = w
                .out_twap(v, p.direction.clone(), p.size.value.u128())
                .map(|x| x as i128)
                .unwrap_or(-1);
        }
    }
    TraderObs {
        pos,
        out_spot: os,
        out_twap: ot,
    }
}

pub fn observe(w: &World, traders: &[&str]) -> WorldObs {
    let mut vamms = vec![];
    let mut tr = BTreeMap::new();
    for v in 0..w.vamms.len() {
        let state = w.vstate(v);
        let registered: bool = w
            .q::<margined_perp::margined_insurance_fund::VammResponse, _>(
                &w.ifund,
                &margined_perp::margined_insurance_fund::QueryMsg::IsVamm {
                    vamm: w.vamms[v].to_string(),
                },
            )
            .map(|r| r.is_vamm)
            .unwrap_or(false);
        vamms.push(VammObs {
            spot: w.spot(v),
            cum: itoi(&w.cum_premium(v)),
            oracle: w
                .vq::<Uint128>(v, &VammQuery::UnderlyingPrice {})
                .map(|x| x.u128() as i128)
                .unwrap_or(-1),
            state,
            registered,
            band: w.vamm_band(v),
        });
        for t in traders {
            tr.insert((v, t.to_string()), observe_trader(w, v, t));
        }
    }
    let mut balances = BTreeMap::new();
    for a in tracked_accounts(w) {
        let b = w.bal(&a);
        balances.insert(a, b);
    }
    let es = w.eng_state();
    WorldObs {
        now: w.now(),
        height: w.height(),
        vamms,
        traders: tr,
        balances,
        total_supply: w.total_supply(),
        oi_notional: es.open_interest_notional.u128(),
        prepaid_bad_debt: es.bad_debt.u128(),
    }
}

/// collateral movements in the dispatch log of the last transaction (successful dispatches only
/// unless `include_failed`)
pub fn transfers(w: &World, include_failed: bool) -> Vec<Xfer> {
    let mut out = vec![];
    let tok = w.token.as_ref().map(|t| t.to_string());
    for d in w.tap.log.borrow().iter() {
        if !d.ok && !include_failed {
            continue;
        }
        match (&d.kind, &tok) {
            (DKind::Wasm, Some(tok)) if &d.target == tok => {
                if let Some(t) = d.msg.get("transfer") {
                    out.push(Xfer {
                        idx: d.idx,
                        from: d.sender.clone(),
                        to: t["recipient"].as_str().unwrap_or("").into(),
                        amt: t["amount"].as_str().unwrap_or("0").parse().unwrap_or(0),
                        pulled: false,
                        by: d.sender.clone(),
                        ok: d.ok,
                    });
                } else if let Some(t) = d.msg.get("transfer_from") {
                    out.push(Xfer {
                        idx: d.idx,
                        from: t["owner"].as_str().unwrap_or("").into(),
                        to: t["recipient"].as_str().unwrap_or("").into(),
                        amt: t["amount"].as_str().unwrap_or("0").parse().unwrap_or(0),
                        pulled: true,
                        by: d.sender.clone(),
                        ok: d.ok,
                    });
                } else if let Some(t) = d.msg.get("send") {
                    out.push(Xfer {
                        idx: d.idx,
                        from: d.sender.clone(),
                        to: t["contract"].as_str().unwrap_or("").into(),
                        amt: t["amount"].as_str().unwrap_or("0").parse().unwrap_or(0),
                        pulled: false,
                        by: d.sender.clone(),
                        ok: d.ok,
                    });
                } else if let Some(t) = d.msg.get("send_from") {
                    out.push(Xfer {
                        idx: d.idx,
                        from: t["owner"].as_str().unwrap_or("").into(),
                        to: t["contract"].as_str().unwrap_or("").into(),
                        amt: t["amount"].as_str().unwrap_or("0").parse().unwrap_or(0),
                        pulled: true,
                        by: d.sender.clone(),
                        ok: d.ok,
                    });
                }
            }
            (DKind::Bank, None) => {
                for (den, amt) in &d.funds {
                    if den == w.denom {
                        out.push(Xfer {
                            idx: d.idx,
                            from: d.sender.clone(),
                            to: d.target.clone(),
                            amt: *amt,
                            pulled: false,
                            by: d.sender.clone(),
                            ok: d.ok,
                        });
                    }
                }
            }
            _ => {}
        }
    }
    out
}

pub fn swaps(w: &World) -> Vec<SwapEv> {
    let mut out = vec![];
    let vs: Vec<String> = (0..w.vamms.len() + 2)
        .filter_map(|i| {
            let mut all = w.vamms.clone();
            if let Some(x) = &w.unregistered {
                all.push(x.clone());
            }
            if let Some(x) = &w.vamm7 {
                all.push(x.clone());
            }
            all.get(i).map(|a| a.to_string())
        })
        .collect();
    for d in w.tap.log.borrow().iter() {
        if d.kind != DKind::Wasm || !d.ok || !vs.contains(&d.target) {
            continue;
        }
        let is_in = d.msg.get("swap_input").is_some();
        let is_out = d.msg.get("swap_output").is_some();
        if !is_in && !is_out {
            continue;
        }
        // first wasm event of the response is the vAMM's own
        if let Some((_, attrs)) = d.events.iter().find(|(ty, a)| {
            ty == "wasm" && a.iter().any(|(k, v)| k == "action" && v == "swap")
        }) {
            let get = |k: &str| -> String {
                attrs
                    .iter()
                    .find(|(kk, _)| kk == k)
                    .map(|(_, v)| v.clone())
                    .unwrap_or_default()
            };
            out.push(SwapEv {
                vamm: d.target.clone(),
                input_kind: is_in,
                direction: get("direction"),
                quote: get("quote_asset_amount").parse().unwrap_or(0),
                base: get("base_asset_amount").parse().unwrap_or(0),
            });
        }
    }
    out
}

pub fn tdiv(a: i128, b: i128) -> i128 {
    a / b // truncates toward zero like the contracts' Integer
}
pub fn pnl_of(p: &Position, out: i128) -> i128 {
    let n = p.notional.u128() as i128;
    if p.direction == Direction::AddToAmm {
        out - n
    } else {
        n - out
    }
}
pub fn size_of(p: &Position) -> i128 {
    itoi(&p.size)
}
pub fn owed_of(p: &Position, cum: i128) -> i128 {
    tdiv((cum - itoi(&p.last_updated_premium_fraction)) * size_of(p), di())
}

/// Reference margin ratio as stated in C06: the PnL of smaller magnitude among spot and 15-min TWAP;
/// with `with_oracle`, replaced by the oracle-priced ratio when the spread to the oracle is ≥10% and
/// that ratio is higher. None if there is no position or a quote query failed.
pub fn ref_ratio(t: &TraderObs, v: &VammObs, with_oracle: bool) -> Option<i128> {
    ref_ratio_alts(t, v, with_oracle).map(|a| a[0])
}

/// Every reading of the stated rule: one value, or - when the spot and the TWAP PnL have the same magnitude and
/// differ (opposite signs, dust positions), where "the PnL of smaller magnitude" names both - the value for each,
/// the one the code picks today (spot) first.
pub fn ref_ratio_alts(t: &TraderObs, v: &VammObs, with_oracle: bool) -> Option<Vec<i128>> {
    let p = t.pos.as_ref()?;
    if p.size.is_zero() || t.out_spot < 0 || t.out_twap < 0 {
        return None;
    }
    let (ps, pt) = (pnl_of(p, t.out_spot), pnl_of(p, t.out_twap));
    let mut cands = vec![];
    if ps.abs() > pt.abs() {
        cands.push((pt, t.out_twap));
    } else {
        cands.push((ps, t.out_spot));
        if ps.abs() == pt.abs() && (ps != pt || t.out_spot != t.out_twap) {
            cands.push((pt, t.out_twap));
        }
    }
    let mut out = vec![];
    for (pnl, notional) in cands {
        if notional == 0 {
            if out.is_empty() {
                return None;
            }
            continue;
        }
        let owed = owed_of(p, v.cum);
        let rem = p.margin.u128() as i128 + pnl - owed;
        let mut r = tdiv(rem * di(), notional);
        if with_oracle && v.oracle > 0 {
            let spot = v.spot as i128;
            let spread = tdiv((spot - v.oracle) * di(), v.oracle).abs();
            if spread >= di() / 10 {
                let on = tdiv(v.oracle * p.size.value.u128() as i128, di());
                if on > 0 {
                    let opnl = pnl_of(p, on);
                    let orr = tdiv((p.margin.u128() as i128 + opnl - owed) * di(), on);
                    if orr > r {
                        r = orr;
                    }
                }
            }
        }
        out.push(r);
    }
    Some(out)
}

pub struct StepObs {
    pub act: Act,
    pub outcome: Outcome,
    pub pre: WorldObs,
    pub post: WorldObs,
    pub xfers: Vec<Xfer>,
    pub swaps: Vec<SwapEv>,
    pub log: Vec<Dispatch>,
    pub pre_snap: Snap,
    pub post_snap: Snap,
}

/// restore `pre`, observe, execute `a`, observe.
pub fn run_step(w: &mut World, pre: &Snap, a: &Act, traders: &[&str]) -> StepObs {
    w.restore(pre);
    let pre_obs = observe(w, traders);
    let outcome = apply(w, a);
    // the oracles see an operation sent with unexpected native coins as the operation itself; the coins show up in the
    // balance deltas
    let a = match a {
        Act::Funded { a, .. } => a.as_ref(),
        x => x,
    };
    let log = w.tap.log.borrow().clone();
    let xfers = if a.sender().is_some() && !matches!(a, Act::Blk { .. }) {
        transfers(w, false)
    } else {
        vec![]
    };
    let sw = swaps(w);
    let post_snap = w.snapshot();
    let post = observe(w, traders);
    StepObs {
        act: a.clone(),
        outcome,
        pre: pre_obs,
        post,
        xfers,
        swaps: sw,
        log,
        pre_snap: pre.clone(),
        post_snap,
    }
}

impl StepObs {
    pub fn store_unchanged(&self) -> bool {
        self.pre_snap.kv == self.post_snap.kv
    }
    pub fn pre_t(&self, v: usize, t: &str) -> &TraderObs {
        &self.pre.traders[&(v, t.to_string())]
    }
    pub fn post_t(&self, v: usize, t: &str) -> &TraderObs {
        &self.post.traders[&(v, t.to_string())]
    }
    pub fn bal_delta(&self, who: &str) -> i128 {
        *self.post.balances.get(who).unwrap_or(&0) as i128
            - *self.pre.balances.get(who).unwrap_or(&0) as i128
    }
    /// net amount received by `who` from `from` in successful transfers
    pub fn sent(&self, from: &str, to: &str) -> u128 {
        self.xfers
            .iter()
            .filter(|x| x.from == from && x.to == to)
            .map(|x| x.amt)
            .sum()
    }
}
