//! Action alphabet of the engine-level worlds and its executor.
use cosmwasm_std::Uint128;
use margined_perp::margined_engine::ExecuteMsg as EngineExec;
use margined_perp::margined_insurance_fund::ExecuteMsg as IfExec;
use margined_perp::margined_pricefeed::ExecuteMsg as PfExec;
use margined_perp::margined_vamm::{Direction, ExecuteMsg as VammExec};
use serde::{Deserialize, Serialize};

use crate::world::*;

#[derive(Clone, Debug, Serialize, Deserialize, PartialEq)]
pub enum Act {
    Open {
        t: String,
        v: usize,
        buy: bool,
        margin: u128,
        lev: u128,
        limit: u128,
    },
    Close {
        t: String,
        v: usize,
        limit: u128,
    },
    Dep {
        t: String,
        v: usize,
        amt: u128,
    },
    Wd {
        t: String,
        v: usize,
        amt: u128,
    },
    Liq {
        by: String,
        t: String,
        v: usize,
        limit: u128,
    },
    Fund {
        by: String,
        v: usize,
    },
    Blk {
        blocks: u64,
        secs: u64,
        /// additional milliseconds (block time has sub-second resolution)
        #[serde(default)]
        ms: u64,
    },
    /// oracle price := absolute value
    Px {
        price: u128,
    },
    /// oracle price := spot(v) * num / den
    PxRel {
        v: usize,
        num: u128,
        den: u128,
    },
    SetPause {
        by: String,
        pause: bool,
    },
    SetOpen {
        by: String,
        v: usize,
        open: bool,
    },
    AddVamm {
        by: String,
        v: usize,
    },
    RemoveVamm {
        by: String,
        v: usize,
    },
    Shutdown {
        by: String,
    },
    Whitelist {
        by: String,
        who: String,
        add: bool,
    },
    VammCaps {
        by: String,
        v: usize,
        oi_cap: Option<u128>,
        holding_cap: Option<u128>,
    },
    /// DepositMargin with a free-form vAMM string (crafted key collisions)
    DepRaw {
        by: String,
        vamm: String,
        amt: u128,
    },
    /// `a` with native coins attached although the operation takes none (or more than it takes); in a cw20 world it is
    /// just `a`
    Funded {
        a: Box<Act>,
        funds: u128,
    },
    /// any engine operation with a free-form vAMM string (crafted key collisions): op is one of open_buy, open_sell,
    /// close, withdraw, liquidate, pay_funding; `trader` is the liquidation target; `amt` the margin / amount
    RawOp {
        by: String,
        op: String,
        vamm: String,
        trader: String,
        amt: u128,
    },
    /// vAMM administration by `by`: ownership transfer and/or a new insurance-fund address in the vAMM's config
    /// ("@ifund" stands for the engine's insurance fund contract)
    VammAdmin {
        by: String,
        v: usize,
        owner: Option<String>,
        ifund: Option<String>,
    },
    /// an engine message given as JSON text (entry points outside the harness's alphabets, see synth.rs)
    RawExec {
        by: String,
        json: String,
    },
    EngConfig {
        by: String,
        imr: Option<u128>,
        mmr: Option<u128>,
        plr: Option<u128>,
        lf: Option<u128>,
    },
    VammConfig {
        by: String,
        v: usize,
        toll: Option<u128>,
        spread: Option<u128>,
        fluct: Option<u128>,
        twap: Option<u64>,
    },
    /// cw20 collateral: the trader sets the engine's allowance on their wallet to exactly `amt` (Increase/DecreaseAllowance
    /// sent by the trader to the token); a no-op with native collateral. An environment step for the oracles.
    Allowance {
        t: String,
        amt: u128,
    },
    /// drain `amt` from the insurance fund purse (a bank/cw20 move by the harness standing for
    /// the fund having paid out elsewhere) — only used by seeds
    Note(String),
}

impl Act {
    /// index of the vAMM the action addresses (0 for actions that address none)
    pub fn vamm_index(&self) -> usize {
        match self {
            Act::Open { v, .. } | Act::Close { v, .. } | Act::Dep { v, .. } | Act::Wd { v, .. } | Act::Liq { v, .. } | Act::Fund { v, .. } | Act::PxRel { v, .. } | Act::SetOpen { v, .. } | Act::VammCaps { v, .. } | Act::VammConfig { v, .. } => *v,
            _ => 0,
        }
    }
    /// the same action with every amount, price and ratio multiplied by `k` (6-decimal notation -> raw units of a
    /// world with more decimals); actions are always executed in raw units
    pub fn scaled(&self, k: u128) -> Act {
        if k == 1 {
            return self.clone();
        }
        let o = |x: &Option<u128>| x.map(|v| v * k);
        match self.clone() {
            Act::Open { t, v, buy, margin, lev, limit } => Act::Open { t, v, buy, margin: margin * k, lev: lev * k, limit: limit.saturating_mul(k) },
            Act::Close { t, v, limit } => Act::Close { t, v, limit: limit.saturating_mul(k) },
            Act::Dep { t, v, amt } => Act::Dep { t, v, amt: amt * k },
            Act::Wd { t, v, amt } => Act::Wd { t, v, amt: amt * k },
            Act::Liq { by, t, v, limit } => Act::Liq { by, t, v, limit: limit.saturating_mul(k) },
            Act::Px { price } => Act::Px { price: price * k },
            Act::VammCaps { by, v, oi_cap, holding_cap } => Act::VammCaps { by, v, oi_cap: o(&oi_cap), holding_cap: o(&holding_cap) },
            Act::DepRaw { by, vamm, amt } => Act::DepRaw { by, vamm, amt: amt * k },
            Act::RawOp { by, op, vamm, trader, amt } => Act::RawOp { by, op, vamm, trader, amt: amt * k },
            Act::Funded { a, funds } => Act::Funded { a: Box::new(a.scaled(k)), funds: funds * k },
            Act::Allowance { t, amt } => Act::Allowance { t, amt: amt * k },
            Act::EngConfig { by, imr, mmr, plr, lf } => Act::EngConfig { by, imr: o(&imr), mmr: o(&mmr), plr: o(&plr), lf: o(&lf) },
            Act::VammConfig { by, v, toll, spread, fluct, twap } => Act::VammConfig { by, v, toll: o(&toll), spread: o(&spread), fluct: o(&fluct), twap },
            a => a,
        }
    }
    pub fn open(t: &str, buy: bool, margin: u128, lev: u128) -> Act {
        Act::Open {
            t: t.into(),
            v: 0,
            buy,
            margin,
            lev,
            limit: 0,
        }
    }
    pub fn close(t: &str) -> Act {
        Act::Close {
            t: t.into(),
            v: 0,
            limit: 0,
        }
    }
    pub fn liq(by: &str, t: &str) -> Act {
        Act::Liq {
            by: by.into(),
            t: t.into(),
            v: 0,
            limit: 0,
        }
    }
    pub fn fund() -> Act {
        Act::Fund {
            by: "stranger".into(),
            v: 0,
        }
    }
    pub fn blk(secs: u64) -> Act {
        Act::Blk { blocks: 1, secs, ms: 0 }
    }
    /// account that signs the transaction (None for environment steps)
    pub fn sender(&self) -> Option<&str> {
        if let Act::Funded { a, .. } = self {
            return a.sender();
        }
        match self {
            Act::Open { t, .. } | Act::Close { t, .. } | Act::Dep { t, .. } | Act::Wd { t, .. } => {
                Some(t)
            }
            Act::Liq { by, .. }
            | Act::Fund { by, .. }
            | Act::SetPause { by, .. }
            | Act::SetOpen { by, .. }
            | Act::AddVamm { by, .. }
            | Act::RemoveVamm { by, .. }
            | Act::Shutdown { by }
            | Act::Whitelist { by, .. }
            | Act::DepRaw { by, .. }
            | Act::RawOp { by, .. }
            | Act::RawExec { by, .. }
            | Act::VammAdmin { by, .. }
            | Act::EngConfig { by, .. }
            | Act::VammConfig { by, .. }
            | Act::VammCaps { by, .. } => Some(by),
            _ => None,
        }
    }
    pub fn is_engine_tx(&self) -> bool {
        if let Act::Funded { a, .. } = self {
            return a.is_engine_tx();
        }
        matches!(
            self,
            Act::Open { .. }
                | Act::Close { .. }
                | Act::Dep { .. }
                | Act::Wd { .. }
                | Act::Liq { .. }
                | Act::Fund { .. }
                | Act::DepRaw { .. }
                | Act::RawOp { .. }
                | Act::RawExec { .. }
        )
    }
    pub fn kind(&self) -> &'static str {
        if let Act::Funded { a, .. } = self {
            return a.kind();
        }
        match self {
            Act::Open { .. } => "open",
            Act::Close { .. } => "close",
            Act::Dep { .. } => "deposit",
            Act::Wd { .. } => "withdraw",
            Act::Liq { .. } => "liquidate",
            Act::Fund { .. } => "pay_funding",
            Act::Blk { .. } => "block",
            Act::Px { .. } | Act::PxRel { .. } => "oracle",
            Act::SetPause { .. } => "set_pause",
            Act::SetOpen { .. } => "set_open",
            Act::AddVamm { .. } => "add_vamm",
            Act::RemoveVamm { .. } => "remove_vamm",
            Act::Shutdown { .. } => "shutdown",
            Act::Whitelist { .. } => "whitelist",
            Act::VammCaps { .. } => "vamm_caps",
            Act::DepRaw { .. } => "deposit_raw",
            Act::RawOp { .. } => "raw_op",
            Act::RawExec { .. } => "raw_exec",
            Act::VammAdmin { .. } => "vamm_admin",
            Act::Funded { .. } => unreachable!(),
            Act::EngConfig { .. } => "engine_config",
            Act::VammConfig { .. } => "vamm_config",
            Act::Allowance { .. } => "allowance",
            Act::Note(_) => "note",
        }
    }
}

/// all vAMM addresses addressable by index: registered ones first, then the unregistered one, then
/// the 7-decimals one
pub fn vamm_addr(w: &World, v: usize) -> cosmwasm_std::Addr {
    let mut all = w.vamms.clone();
    if let Some(x) = &w.unregistered {
        all.push(x.clone());
    }
    if let Some(x) = &w.vamm7 {
        all.push(x.clone());
    }
    all[v].clone()
}

/// Native collateral: candidate amounts to attach to an OpenPosition (see DESIGN §2.1). The first
/// is the amount the cw20 deployment would pull from the trader (fees + max(0, net margin owed)).
pub fn native_open_candidates(
    w: &World,
    t: &str,
    va: &cosmwasm_std::Addr,
    buy: bool,
    margin: u128,
    lev: u128,
) -> Vec<u128> {
    let d = w.d;
    let n = margin.saturating_mul(lev) / d;
    let fees = {
        let r: Result<margined_perp::margined_vamm::CalcFeeResponse, String> = w.q(
            va,
            &margined_perp::margined_vamm::QueryMsg::CalcFee {
                quote_asset_amount: Uint128::new(n),
            },
        );
        match r {
            Ok(r) => r.spread_fee.u128() + r.toll_fee.u128(),
            Err(_) => 0,
        }
    };
    let full = if lev > 0 { n * d / lev } else { 0 };
    // a fresh open or an increase: the margin re-derived from the floored notional (what the engine books), or the
    // margin as named in the call (they differ by at most one unit, with fractional leverage)
    let plain = if full == margin { vec![full + fees] } else { vec![full + fees, margin + fees] };
    let p = match w.pos_at(va, t) {
        Some(p) if !p.size.is_zero() => p,
        _ => return plain,
    };
    let same = (p.direction == Direction::AddToAmm) == buy;
    if same {
        return plain;
    }
    let pn: u128 = w
        .q::<Uint128, _>(
            va,
            &margined_perp::margined_vamm::QueryMsg::OutputAmount {
                direction: p.direction.clone(),
                amount: p.size.value,
            },
        )
        .map(|x| x.u128())
        .unwrap_or(0);
    if pn > n {
        return vec![fees];
    }
    let rem = n - pn;
    if lev == 0 || rem / lev == 0 {
        return vec![fees];
    }
    let swap_margin = rem * d / lev;
    let pnl: i128 = if p.direction == Direction::AddToAmm {
        pn as i128 - p.notional.u128() as i128
    } else {
        p.notional.u128() as i128 - pn as i128
    };
    let eq = p.margin.u128() as i128 + pnl;
    let net = (swap_margin as i128 - eq).max(0) as u128;
    let mut c = vec![fees + net, fees + swap_margin, fees];
    if eq > 0 {
        let e = eq as u128;
        c.push(fees.saturating_sub(e.min(fees)) + swap_margin);
    }
    c.dedup();
    c
}

fn is_funds_error(o: &Outcome) -> bool {
    !o.ok && (o.err.contains("sent funds are") || o.err.contains("Native token balance mismatch"))
}

/// Executes `a` on the world. Environment steps always succeed.
pub fn apply(w: &mut World, a: &Act) -> Outcome {
    apply_fault(w, a, None)
}

/// Native collateral with an explicit amount attached (C13: exactly what the cw20 twin pulled).
pub fn apply_with_funds(w: &mut World, a: &Act, funds: u128) -> Outcome {
    apply_with_funds_fault(w, a, funds, None)
}

pub fn apply_with_funds_fault(w: &mut World, a: &Act, funds: u128, fail_at: Option<u32>) -> Outcome {
    w.tap.reset(None);
    let eng = w.engine.clone();
    match a {
        Act::Open { t, v, buy, margin, lev, limit } => {
            let va = vamm_addr(w, *v);
            let msg = EngineExec::OpenPosition {
                vamm: va.to_string(),
                side: World::side(*buy),
                margin_amount: Uint128::new(*margin),
                leverage: Uint128::new(*lev),
                base_asset_limit: Uint128::new(*limit),
            };
            w.exec_full(t, &eng, &msg, funds, fail_at)
        }
        Act::Close { t, v, limit } => {
            let va = vamm_addr(w, *v);
            let msg = EngineExec::ClosePosition { vamm: va.to_string(), quote_asset_limit: Uint128::new(*limit) };
            w.exec_full(t, &eng, &msg, funds, fail_at)
        }
        Act::Dep { t, v, amt } => {
            let va = vamm_addr(w, *v);
            let msg = EngineExec::DepositMargin { vamm: va.to_string(), amount: Uint128::new(*amt) };
            w.exec_full(t, &eng, &msg, funds, fail_at)
        }
        Act::Wd { t, v, amt } => {
            let va = vamm_addr(w, *v);
            let msg = EngineExec::WithdrawMargin { vamm: va.to_string(), amount: Uint128::new(*amt) };
            w.exec_full(t, &eng, &msg, funds, fail_at)
        }
        Act::Liq { by, t, v, limit } => {
            let va = vamm_addr(w, *v);
            let msg = EngineExec::Liquidate { vamm: va.to_string(), trader: t.clone(), quote_asset_limit: Uint128::new(*limit) };
            w.exec_full(by, &eng, &msg, funds, fail_at)
        }
        Act::Fund { by, v } => {
            let va = vamm_addr(w, *v);
            let msg = EngineExec::PayFunding { vamm: va.to_string() };
            w.exec_full(by, &eng, &msg, funds, fail_at)
        }
        _ => apply_fault(w, a, fail_at),
    }
}

pub fn apply_fault(w: &mut World, a: &Act, fail_at: Option<u32>) -> Outcome {
    if let Act::Funded { a: inner, funds } = a {
        return if w.token.is_none() { apply_with_funds_fault(w, inner, *funds, fail_at) } else { apply_fault(w, inner, fail_at) };
    }
    w.tap.reset(None);
    let native = w.token.is_none();
    let eng = w.engine.clone();
    match a {
        Act::Open {
            t,
            v,
            buy,
            margin,
            lev,
            limit,
        } => {
            let va = vamm_addr(w, *v);
            let msg = EngineExec::OpenPosition {
                vamm: va.to_string(),
                side: World::side(*buy),
                margin_amount: Uint128::new(*margin),
                leverage: Uint128::new(*lev),
                base_asset_limit: Uint128::new(*limit),
            };
            if native {
                // driver convenience (single-deployment native worlds only): the first candidate is the amount the cw20
                // deployment would pull; a candidate that is refused is followed by the next one, whatever the refusal's
                // text, and the first success is the outcome. If every candidate is refused the outcome is the one of
                // the first candidate that was not refused for its funds (else of the first), re-executed last so that
                // the dispatch log belongs to it.
                let cands = native_open_candidates(w, t, &va, *buy, *margin, *lev);
                let mut pick = None;
                for (i, f) in cands.iter().enumerate() {
                    let o = w.exec_full(t, &eng, &msg, *f, fail_at);
                    if o.ok {
                        return o;
                    }
                    if pick.is_none() && !is_funds_error(&o) {
                        pick = Some(i);
                    }
                    if cands.len() == 1 {
                        return o;
                    }
                }
                w.exec_full(t, &eng, &msg, cands[pick.unwrap_or(0)], fail_at)
            } else {
                w.exec_full(t, &eng, &msg, 0, fail_at)
            }
        }
        Act::Close { t, v, limit } => {
            let va = vamm_addr(w, *v);
            let msg = EngineExec::ClosePosition {
                vamm: va.to_string(),
                quote_asset_limit: Uint128::new(*limit),
            };
            let funds = if native {
                match w.pos_at(&va, t) {
                    Some(p) => {
                        let r: Result<margined_perp::margined_vamm::CalcFeeResponse, String> = w.q(
                            &va,
                            &margined_perp::margined_vamm::QueryMsg::CalcFee {
                                quote_asset_amount: p.notional,
                            },
                        );
                        r.map(|r| r.spread_fee.u128() + r.toll_fee.u128())
                            .unwrap_or(0)
                    }
                    None => 0,
                }
            } else {
                0
            };
            w.exec_full(t, &eng, &msg, funds, fail_at)
        }
        Act::Dep { t, v, amt } => {
            let va = vamm_addr(w, *v);
            let msg = EngineExec::DepositMargin {
                vamm: va.to_string(),
                amount: Uint128::new(*amt),
            };
            w.exec_full(t, &eng, &msg, if native { *amt } else { 0 }, fail_at)
        }
        Act::Wd { t, v, amt } => {
            let va = vamm_addr(w, *v);
            let msg = EngineExec::WithdrawMargin {
                vamm: va.to_string(),
                amount: Uint128::new(*amt),
            };
            w.exec_full(t, &eng, &msg, 0, fail_at)
        }
        Act::Liq { by, t, v, limit } => {
            let va = vamm_addr(w, *v);
            let msg = EngineExec::Liquidate {
                vamm: va.to_string(),
                trader: t.clone(),
                quote_asset_limit: Uint128::new(*limit),
            };
            w.exec_full(by, &eng, &msg, 0, fail_at)
        }
        Act::Fund { by, v } => {
            let va = vamm_addr(w, *v);
            let msg = EngineExec::PayFunding {
                vamm: va.to_string(),
            };
            w.exec_full(by, &eng, &msg, 0, fail_at)
        }
        Act::Blk { blocks, secs, ms } => {
            w.advance_ms(*blocks, *secs, *ms);
            env_ok()
        }
        Act::Px { price } => set_price(w, *price),
        Act::PxRel { v, num, den } => {
            let p = w.spot(*v) * num / den;
            set_price(w, p)
        }
        Act::SetPause { by, pause } => {
            w.exec_full(by, &eng, &EngineExec::SetPause { pause: *pause }, 0, fail_at)
        }
        Act::SetOpen { by, v, open } => {
            let va = vamm_addr(w, *v);
            w.exec_full(by, &va, &VammExec::SetOpen { open: *open }, 0, fail_at)
        }
        Act::AddVamm { by, v } => {
            let va = vamm_addr(w, *v);
            let f = w.ifund.clone();
            w.exec_full(
                by,
                &f,
                &IfExec::AddVamm {
                    vamm: va.to_string(),
                },
                0,
                fail_at,
            )
        }
        Act::RemoveVamm { by, v } => {
            let va = vamm_addr(w, *v);
            let f = w.ifund.clone();
            w.exec_full(
                by,
                &f,
                &IfExec::RemoveVamm {
                    vamm: va.to_string(),
                },
                0,
                fail_at,
            )
        }
        Act::Shutdown { by } => {
            let f = w.ifund.clone();
            w.exec_full(by, &f, &IfExec::ShutdownVamms {}, 0, fail_at)
        }
        Act::Whitelist { by, who, add } => {
            let m = if *add {
                EngineExec::AddWhitelist {
                    address: who.clone(),
                }
            } else {
                EngineExec::RemoveWhitelist {
                    address: who.clone(),
                }
            };
            w.exec_full(by, &eng, &m, 0, fail_at)
        }
        Act::VammCaps {
            by,
            v,
            oi_cap,
            holding_cap,
        } => {
            let va = vamm_addr(w, *v);
            w.exec_full(
                by,
                &va,
                &VammExec::UpdateConfig {
                    base_asset_holding_cap: holding_cap.map(Uint128::new),
                    open_interest_notional_cap: oi_cap.map(Uint128::new),
                    toll_ratio: None,
                    spread_ratio: None,
                    fluctuation_limit_ratio: None,
                    margin_engine: None,
                    insurance_fund: None,
                    pricefeed: None,
                    spot_price_twap_interval: None,
                },
                0,
                fail_at,
            )
        }
        Act::DepRaw { by, vamm, amt } => {
            let msg = EngineExec::DepositMargin { vamm: vamm.clone(), amount: Uint128::new(*amt) };
            w.exec_full(by, &eng, &msg, if native { *amt } else { 0 }, fail_at)
        }
        Act::Funded { .. } => unreachable!(),
        Act::RawOp { by, op, vamm, trader, amt } => {
            use margined_perp::margined_engine::Side;
            let d = w.d;
            let (msg, funds) = match op.as_str() {
                "open_buy" | "open_sell" => (
                    EngineExec::OpenPosition {
                        vamm: vamm.clone(),
                        side: if op == "open_buy" { Side::Buy } else { Side::Sell },
                        margin_amount: Uint128::new(*amt),
                        leverage: Uint128::new(d),
                        base_asset_limit: Uint128::zero(),
                    },
                    *amt,
                ),
                "close" => (EngineExec::ClosePosition { vamm: vamm.clone(), quote_asset_limit: Uint128::zero() }, 0),
                "withdraw" => (EngineExec::WithdrawMargin { vamm: vamm.clone(), amount: Uint128::new(*amt) }, 0),
                "liquidate" => (EngineExec::Liquidate { vamm: vamm.clone(), trader: trader.clone(), quote_asset_limit: Uint128::zero() }, 0),
                _ => (EngineExec::PayFunding { vamm: vamm.clone() }, 0),
            };
            w.exec_full(by, &eng, &msg, if native { funds } else { 0 }, fail_at)
        }
        Act::VammAdmin { by, v, owner, ifund } => {
            let va = vamm_addr(w, *v);
            let fund = w.ifund.to_string();
            let res = |x: &String| if x == "@ifund" { fund.clone() } else { x.clone() };
            let by = res(by);
            let mut last = env_ok();
            if let Some(f) = ifund {
                last = w.exec_full(
                    &by,
                    &va,
                    &VammExec::UpdateConfig {
                        base_asset_holding_cap: None,
                        open_interest_notional_cap: None,
                        toll_ratio: None,
                        spread_ratio: None,
                        fluctuation_limit_ratio: None,
                        margin_engine: None,
                        insurance_fund: Some(res(f)),
                        pricefeed: None,
                        spot_price_twap_interval: None,
                    },
                    0,
                    fail_at,
                );
                if !last.ok {
                    return last;
                }
            }
            if let Some(o) = owner {
                last = w.exec_full(&by, &va, &VammExec::UpdateOwner { owner: res(o) }, 0, fail_at);
            }
            last
        }
        Act::RawExec { by, json } => {
            let v: serde_json::Value = serde_json::from_str(json).expect("raw exec json");
            w.exec_json(by, &eng, &v)
        }
        Act::EngConfig { by, imr, mmr, plr, lf } => w.exec_full(
            by,
            &eng,
            &EngineExec::UpdateConfig {
                owner: None,
                insurance_fund: None,
                fee_pool: None,
                initial_margin_ratio: imr.map(Uint128::new),
                maintenance_margin_ratio: mmr.map(Uint128::new),
                partial_liquidation_ratio: plr.map(Uint128::new),
                liquidation_fee: lf.map(Uint128::new),
            },
            0,
            fail_at,
        ),
        Act::VammConfig { by, v, toll, spread, fluct, twap } => {
            let va = vamm_addr(w, *v);
            w.exec_full(
                by,
                &va,
                &VammExec::UpdateConfig {
                    base_asset_holding_cap: None,
                    open_interest_notional_cap: None,
                    toll_ratio: toll.map(Uint128::new),
                    spread_ratio: spread.map(Uint128::new),
                    fluctuation_limit_ratio: fluct.map(Uint128::new),
                    margin_engine: None,
                    insurance_fund: None,
                    pricefeed: None,
                    spot_price_twap_interval: *twap,
                },
                0,
                fail_at,
            )
        }
        Act::Allowance { t, amt } => {
            if let Some(tok) = w.token.clone() {
                let cur: cw20::AllowanceResponse = w
                    .app
                    .wrap()
                    .query_wasm_smart(tok.clone(), &cw20::Cw20QueryMsg::Allowance { owner: t.clone(), spender: eng.to_string() })
                    .unwrap();
                let cur = cur.allowance.u128();
                if cur > *amt {
                    let o = w.exec(t, &tok, &cw20::Cw20ExecuteMsg::DecreaseAllowance { spender: eng.to_string(), amount: Uint128::new(cur - *amt), expires: None }, 0);
                    assert!(o.ok, "allowance step failed: {}", o.err);
                } else if cur < *amt {
                    let o = w.exec(t, &tok, &cw20::Cw20ExecuteMsg::IncreaseAllowance { spender: eng.to_string(), amount: Uint128::new(*amt - cur), expires: None }, 0);
                    assert!(o.ok, "allowance step failed: {}", o.err);
                }
                w.tap.reset(None);
            }
            env_ok()
        }
        Act::Note(_) => env_ok(),
    }
}

fn env_ok() -> Outcome {
    Outcome {
        ok: true,
        panicked: false,
        err: String::new(),
        dispatches: 0,
    }
}

pub fn set_price(w: &mut World, p: u128) -> Outcome {
    let now = w.now();
    let f = w.feed();
    w.exec(
        "owner",
        &f,
        &PfExec::AppendPrice {
            key: "ETH".into(),
            price: Uint128::new(p),
            timestamp: now,
        },
        0,
    )
}
