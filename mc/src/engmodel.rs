//! Model of the full deployment (engine + vAMMs + insurance fund + fee pool + feed) for the explorer.
use serde_json::Value;

use crate::acts::*;
use crate::explorer::*;
use crate::obs::*;
use crate::world::*;

#[derive(Clone)]
pub struct EngSt {
    pub snap: Snap,
    /// property-specific reference monitor, part of the state key
    pub mon: Value,
}

pub type AlphaFn = dyn Fn(&mut World, &EngSt) -> Vec<Act> + Sync;
pub type OracleFn = dyn Fn(&EngModel, &mut World, &EngSt, &Act, &mut StepOut) -> Option<EngSt> + Sync;

pub struct EngModel<'a> {
    pub cfg: Cfg,
    pub traders: Vec<&'static str>,
    pub alphabet: &'a AlphaFn,
    pub oracle: &'a OracleFn,
    pub init_mon: Value,
    /// extra setup executed on the fresh world before the initial snapshot is taken
    pub setup: Option<&'a (dyn Fn(&mut World) + Sync)>,
}

pub struct EngCtx {
    pub w: World,
    pub init: Snap,
}

impl<'a> Model for EngModel<'a> {
    type Ctx = EngCtx;
    type State = EngSt;
    type Act = Act;
    fn make_ctx(&self) -> EngCtx {
        let mut w = World::new(&self.cfg);
        if let Some(f) = self.setup {
            f(&mut w);
        }
        let init = w.snapshot();
        EngCtx { w, init }
    }
    fn initial(&self, ctx: &mut EngCtx) -> EngSt {
        EngSt {
            snap: ctx.init.clone(),
            mon: self.init_mon.clone(),
        }
    }
    fn key(&self, s: &EngSt) -> Key {
        let m = if s.mon.is_null() {
            vec![]
        } else {
            serde_json::to_vec(&s.mon).unwrap()
        };
        hash_snap(
            &s.snap.kv,
            s.snap.block.height,
            s.snap.block.time.nanos(),
            &m,
        )
    }
    fn actions(&self, ctx: &mut EngCtx, s: &EngSt) -> Vec<Act> {
        (self.alphabet)(&mut ctx.w, s)
    }
    fn step(&self, ctx: &mut EngCtx, s: &EngSt, a: &Act, out: &mut StepOut) -> Option<EngSt> {
        (self.oracle)(self, &mut ctx.w, s, a, out)
    }
}

impl<'a> EngModel<'a> {
    /// the common way to take a step: restore, observe, execute, observe
    pub fn observe_step(&self, w: &mut World, s: &EngSt, a: &Act, out: &mut StepOut) -> StepObs {
        let so = run_step(w, &s.snap, a, &self.traders);
        out.executions += 1;
        let kind = a.kind();
        out.tag(format!(
            "outcome:{}:{}",
            kind,
            if so.outcome.ok {
                "ok"
            } else if so.outcome.panicked {
                "panic"
            } else {
                "err"
            }
        ));
        so
    }
}

pub const T2: [&str; 2] = ["alice", "bob"];
pub const T3: [&str; 3] = ["alice", "bob", "carol"];

/// Trade sizes (margin, leverage): S = 20 x5, M = 7.000003 x3.3, L = 60 x10
pub const SIZE_S: (u128, u128) = (20 * D, 5 * D);
pub const SIZE_M: (u128, u128) = (7_000_003, 3_300_000);
pub const SIZE_L: (u128, u128) = (60 * D, 10 * D);

pub struct StdAlpha {
    pub traders: Vec<&'static str>,
    pub sizes: Vec<(u128, u128)>,
    pub n_vamms: usize,
    pub deposit: Option<u128>,
    pub withdraw: Option<u128>,
    pub liquidators: Vec<&'static str>,
    pub self_liq: bool,
    pub funding: bool,
    pub blocks: Vec<u64>,
    pub prices: Vec<u128>,
    pub rel_prices: Vec<(u128, u128)>,
    /// quote limits attached to the first liquidator's Liquidate calls
    pub liq_limits: Vec<u128>,
}

impl StdAlpha {
    pub fn basic(traders: &[&'static str]) -> StdAlpha {
        StdAlpha {
            traders: traders.to_vec(),
            sizes: vec![SIZE_S, SIZE_M, SIZE_L],
            n_vamms: 1,
            deposit: Some(5 * D),
            withdraw: Some(3 * D),
            liquidators: vec!["liq"],
            self_liq: false,
            funding: true,
            blocks: vec![15, 1200, 3900],
            prices: vec![8 * D, 10 * D, 12_500_000],
            rel_prices: vec![],
            liq_limits: vec![0],
        }
    }
    pub fn acts(&self) -> Vec<Act> {
        let mut acts = vec![];
        for v in 0..self.n_vamms {
            for t in &self.traders {
                for buy in [true, false] {
                    for (m, l) in &self.sizes {
                        acts.push(Act::Open {
                            t: t.to_string(),
                            v,
                            buy,
                            margin: *m,
                            lev: *l,
                            limit: 0,
                        });
                    }
                }
                acts.push(Act::Close {
                    t: t.to_string(),
                    v,
                    limit: 0,
                });
                if let Some(a) = self.deposit {
                    acts.push(Act::Dep {
                        t: t.to_string(),
                        v,
                        amt: a,
                    });
                }
                if let Some(a) = self.withdraw {
                    acts.push(Act::Wd {
                        t: t.to_string(),
                        v,
                        amt: a,
                    });
                }
                for (i, by) in self.liquidators.iter().enumerate() {
                    let zero = vec![0u128];
                    for limit in if i == 0 { &self.liq_limits } else { &zero } {
                        acts.push(Act::Liq {
                            by: by.to_string(),
                            t: t.to_string(),
                            v,
                            limit: *limit,
                        });
                    }
                }
                if self.self_liq {
                    acts.push(Act::Liq {
                        by: t.to_string(),
                        t: t.to_string(),
                        v,
                        limit: 0,
                    });
                }
            }
            if self.funding {
                acts.push(Act::Fund {
                    by: "stranger".into(),
                    v,
                });
            }
            for (n, d) in &self.rel_prices {
                acts.push(Act::PxRel {
                    v,
                    num: *n,
                    den: *d,
                });
            }
        }
        for s in &self.blocks {
            acts.push(Act::Blk {
                blocks: 1,
                secs: *s,
                ms: 0,
            });
        }
        for p in &self.prices {
            acts.push(Act::Px { price: *p });
        }
        acts
    }
}

/// Seeds shared by the engine-level properties (action prefixes from the initial deployment).
pub fn px_at_spot() -> Act {
    Act::PxRel { v: 0, num: 1, den: 1 }
}
pub fn seed_liquidatable() -> Vec<Act> {
    // alice long M, bob short 40x10 (price 10.5 -> 3.9), +20 min, oracle follows: alice is deep under water
    vec![
        Act::open("alice", true, SIZE_M.0, SIZE_M.1),
        Act::blk(15),
        Act::open("bob", false, 40 * D, 10 * D),
        Act::blk(1200),
        px_at_spot(),
    ]
}
pub fn seed_liquidatable_mirror() -> Vec<Act> {
    vec![
        Act::open("alice", false, SIZE_M.0, SIZE_M.1),
        Act::blk(15),
        Act::open("bob", true, SIZE_L.0, SIZE_L.1),
        Act::blk(1200),
        px_at_spot(),
    ]
}
/// alice long 25x10, price falls ~7%: margin ratio between 0 and maintenance (partial-liquidation territory)
pub fn seed_slightly_under() -> Vec<Act> {
    vec![
        Act::open("alice", true, 25 * D, 10 * D),
        Act::blk(15),
        Act::open("bob", false, 45 * D, 1 * D),
        Act::blk(1200),
        px_at_spot(),
    ]
}
pub fn seed_slightly_under_mirror() -> Vec<Act> {
    vec![
        Act::open("alice", false, 20 * D, 10 * D),
        Act::blk(15),
        Act::open("bob", true, 15 * D, 1 * D),
        Act::blk(1200),
        px_at_spot(),
    ]
}
pub fn seed_funded() -> Vec<Act> {
    // one funding settlement with non-zero premium while alice and bob hold positions
    vec![
        Act::open("alice", true, SIZE_M.0, SIZE_M.1),
        Act::open("bob", false, SIZE_S.0, SIZE_S.1),
        Act::Px { price: 8 * D },
        Act::blk(3900),
        Act::fund(),
    ]
}
pub fn seed_reversed() -> Vec<Act> {
    vec![
        Act::open("alice", true, SIZE_M.0, SIZE_M.1),
        Act::blk(15),
        Act::open("alice", false, SIZE_S.0, SIZE_S.1),
    ]
}
pub fn seed_vault_drained() -> Vec<Act> {
    // alice and bob long; alice closes in profit so the vault holds less than bob's margin
    vec![
        Act::blk(15),
        Act::open("alice", true, SIZE_L.0, SIZE_L.1),
        Act::open("bob", true, SIZE_L.0, SIZE_L.1),
        Act::blk(15),
        Act::close("alice"),
    ]
}

/// mirror image with smaller positions: alice and bob short 20x10, alice closes in profit; the fund advances her
/// profit (prepaid bad debt) and bob is left deep under water with an empty vault. A later liquidation of bob realises
/// slightly more bad debt than was prepaid.
pub fn seed_vault_drained_shorts() -> Vec<Act> {
    vec![
        Act::blk(15),
        Act::open("alice", false, 20 * D, 10 * D),
        Act::open("bob", false, 20 * D, 10 * D),
        Act::blk(15),
        Act::close("alice"),
    ]
}

/// alice has been credited funding she has not collected yet (a settlement with the oracle on her side) and a third
/// party then moves the price against her: slightly under-margined (ratio between the liquidation fee and maintenance
/// in the liquidation-band configuration), with margin left after a liquidation
pub fn seed_funding_receiver_slightly_under(long: bool) -> Vec<Act> {
    if long {
        vec![
            Act::open("alice", true, 25 * D, 10 * D),
            Act::Px { price: 18 * D },
            Act::blk(3900),
            Act::fund(),
            Act::open("carol", false, 25 * D, 2 * D),
            Act::blk(1200),
            px_at_spot(),
        ]
    } else {
        vec![
            Act::open("alice", false, 20 * D, 10 * D),
            Act::Px { price: 6 * D },
            Act::blk(3900),
            Act::fund(),
            Act::open("carol", true, 12 * D, 2 * D),
            Act::blk(1200),
            px_at_spot(),
        ]
    }
}

/// a busy market: after a price move that puts alice under maintenance at spot (not yet on the 15-minute average),
/// somebody trades a dust amount in each of 110 consecutive one-second blocks (more reserve snapshots inside the
/// 15-minute window than any per-call bound on the walk would visit)
pub fn seed_busy_market() -> Vec<Act> {
    let mut v = vec![
        Act::open("alice", true, 25 * D, 10 * D),
        Act::blk(3600),
        Act::open("bob", false, 50 * D, D),
        px_at_spot(),
    ];
    for i in 0..110 {
        v.push(Act::Open { t: "carol".into(), v: 0, buy: i % 2 == 0, margin: 1_000, lev: D, limit: 0 });
        v.push(Act::blk(1));
    }
    v
}

/// everything in one block: carol pumps, alice and bob open long at the top, carol closes; alice and
/// bob are far below maintenance on spot and on TWAP within the same block
pub fn seed_same_block_cascade() -> Vec<Act> {
    vec![
        Act::blk(15),
        Act::open("carol", true, 100 * D, 10 * D),
        Act::open("alice", true, 20 * D, 10 * D),
        Act::open("bob", true, 20 * D, 10 * D),
        Act::close("carol"),
        px_at_spot(),
    ]
}
