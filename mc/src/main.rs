use perpmc::evidence::Tier;

fn main() {
    // contract panics are aborted transactions; keep them quiet
    perpmc::world::install_panic_hook();
    let args: Vec<String> = std::env::args().collect();
    if args.len() < 3 {
        eprintln!("usage: perpmc <Cxx> <quick|thorough> | perpmc replay <file>");
        std::process::exit(2);
    }
    if args[1] == "trace" {
        // perpmc trace '<cfg json or {}>' '<actions json>' : debugging aid, prints observations per step
        std::process::exit(perpmc::props::trace(&args[2], &args[3]));
    }
    if args[1] == "replay" {
        std::process::exit(perpmc::props::replay(&args[2]));
    }
    let tier = match args[2].as_str() {
        "quick" => Tier::Quick,
        "thorough" => Tier::Thorough,
        _ => {
            eprintln!("tier must be quick or thorough");
            std::process::exit(2);
        }
    };
    let code = perpmc::props::run(&args[1], tier);
    std::process::exit(code);
}
