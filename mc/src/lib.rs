pub mod acts;
pub mod engmodel;
pub mod evidence;
pub mod explorer;
pub mod obs;
pub mod props;
pub mod taps;
pub mod world;
