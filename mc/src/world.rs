//! The real contracts deployed on a snapshot-able cw-multi-test chain.
use std::collections::BTreeMap;

use cosmwasm_std::{Addr, BlockInfo, Coin, Empty, Uint128};
use cw_multi_test::{AppBuilder, BankKeeper, ContractWrapper, Executor, WasmKeeper};
use margined_common::integer::Integer;
use margined_perp::margined_engine::{
    ConfigResponse as EngCfg, ExecuteMsg as EngineExec, InstantiateMsg as EngineInit, Position,
    QueryMsg as EngineQuery, Side, StateResponse as EngState,
};
use margined_perp::margined_insurance_fund::ExecuteMsg as IfExec;
use margined_perp::margined_pricefeed::ExecuteMsg as PfExec;
use margined_perp::margined_vamm::{
    CalcFeeResponse, ConfigResponse as VammCfg, Direction, ExecuteMsg as VammExec,
    InstantiateMsg as VammInit, QueryMsg as VammQuery, StateResponse as VammState,
};
use serde::de::DeserializeOwned;
use serde::{Deserialize, Serialize};

use crate::taps::*;

thread_local! {
    /// true while a contract call runs under catch_unwind (its panic is an aborted transaction)
    pub static IN_CONTRACT: std::cell::Cell<bool> = std::cell::Cell::new(false);
}

pub fn install_panic_hook() {
    let default = std::panic::take_hook();
    std::panic::set_hook(Box::new(move |info| {
        if !IN_CONTRACT.with(|c| c.get()) || std::env::var("VERIF_PANICS").is_ok() {
            default(info);
        }
    }));
}

pub const D: u128 = 1_000_000;
pub const DENOM: &str = "uwasm";
thread_local! {
    /// 1.0 in raw units of the world this thread is currently executing (set by World::new / restore)
    pub static UNIT: std::cell::Cell<u128> = std::cell::Cell::new(D);
}
/// 1.0 in raw units of the current world
pub fn du() -> u128 {
    UNIT.with(|u| u.get())
}
pub fn di() -> i128 {
    du() as i128
}
/// native denominations by decimals (the engine derives the decimals from the prefix letter)
pub fn denom_for(dec: u8) -> &'static str {
    match dec {
        6 => "uwasm",
        9 => "nwasm",
        _ => panic!("unsupported native decimals"),
    }
}
fn six() -> u8 {
    6
}
pub const WALLETS: [&str; 5] = ["alice", "bob", "carol", "liq", "stranger"];

#[derive(Clone, Debug, Serialize, Deserialize, PartialEq)]
pub struct Cfg {
    pub cw20: bool,
    /// vAMMs instantiated, opened and registered with the insurance fund
    pub n_vamms: usize,
    /// additional vAMM: opened but not registered
    pub extra_unregistered: bool,
    /// additional vAMM with 7 decimals: opened, not registered
    pub extra_7dec: bool,
    pub quote_reserve: u128,
    pub base_reserve: u128,
    pub toll: u128,
    pub spread: u128,
    pub fluct: u128,
    pub funding_period: u64,
    pub imr: u128,
    pub mmr: u128,
    pub plr: u128,
    pub liq_fee: u128,
    pub real_feed: bool,
    pub wallet: u128,
    pub if_funds: u128,
    pub oi_cap: u128,
    pub holding_cap: u128,
    /// the vAMMs name a different address than the engine's insurance fund as *their* insurance fund
    /// (a separate, owner-updatable setting of the vAMM that only authorises SetOpen)
    #[serde(default)]
    pub vamm_if_other: bool,
    /// decimals of the collateral (cw20 token decimals; native is always 6) = decimals of the engine and
    /// its vAMMs. All amounts and ratios of a `Cfg` are written in 6-decimal notation; `World::new` deploys them
    /// multiplied by 10^(dec-6) and keeps the multiplied copy in `World::cfg`.
    #[serde(default = "six")]
    pub dec: u8,
    #[serde(skip)]
    pub scaled: bool,
}

impl Default for Cfg {
    fn default() -> Self {
        Cfg {
            cw20: true,
            n_vamms: 1,
            extra_unregistered: false,
            extra_7dec: false,
            quote_reserve: 1000 * D,
            base_reserve: 100 * D,
            toll: 0,
            spread: 0,
            fluct: 0,
            funding_period: 3600,
            imr: 50_000,
            mmr: 50_000,
            plr: 0,
            liq_fee: 50_000,
            real_feed: false,
            wallet: 5_000 * D,
            if_funds: 5_000 * D,
            oi_cap: 0,
            holding_cap: 0,
            vamm_if_other: false,
            dec: 6,
            scaled: false,
        }
    }
}

impl Cfg {
    /// raw units per notation unit
    pub fn k(&self) -> u128 {
        10u128.pow(self.dec as u32 - 6)
    }
    /// 1.0 in raw units
    pub fn d(&self) -> u128 {
        10u128.pow(self.dec as u32)
    }
    pub fn scaled_copy(&self) -> Cfg {
        if self.scaled {
            return self.clone();
        }
        let k = self.k();
        let mut c = self.clone();
        for f in [
            &mut c.quote_reserve, &mut c.base_reserve, &mut c.toll, &mut c.spread, &mut c.fluct, &mut c.imr, &mut c.mmr,
            &mut c.plr, &mut c.liq_fee, &mut c.wallet, &mut c.if_funds, &mut c.oi_cap, &mut c.holding_cap,
        ] {
            *f *= k;
        }
        c.scaled = true;
        c
    }
    pub fn label(&self) -> String {
        format!(
            "{}{}v{} q{}b{} toll{} spread{} fl{} imr{} mmr{} plr{} lf{}{}",
            if self.cw20 { "cw20" } else { "native" },
            if self.real_feed { "+realfeed" } else { "" },
            self.n_vamms,
            self.quote_reserve / D,
            self.base_reserve / D,
            self.toll,
            self.spread,
            self.fluct,
            self.imr,
            self.mmr,
            self.plr,
            self.liq_fee,
            format!(
                "{}{}{}",
                if self.oi_cap > 0 || self.holding_cap > 0 { format!(" oicap{} hcap{}", self.oi_cap, self.holding_cap) } else { String::new() },
                if self.if_funds != 5_000 * D { format!(" if{}", self.if_funds) } else { String::new() },
                if self.vamm_if_other { " vamm-names-other-ifund" } else { "" }
            ) + if self.dec != 6 { " dec9" } else { "" }
                + &(if self.funding_period != 3600 { format!(" fp{}", self.funding_period) } else { String::new() })
        )
    }
}

#[derive(Clone, Debug)]
pub struct Snap {
    pub kv: Kv,
    pub block: BlockInfo,
}

#[derive(Clone, Debug)]
pub struct Outcome {
    pub ok: bool,
    pub panicked: bool,
    pub err: String,
    pub dispatches: u32,
}

pub struct World {
    pub cfg: Cfg,
    pub app: MyApp,
    pub store: SnapStorage,
    pub tap: Tap,
    pub owner: Addr,
    pub engine: Addr,
    pub vamms: Vec<Addr>,
    pub unregistered: Option<Addr>,
    pub vamm7: Option<Addr>,
    pub ifund: Addr,
    pub fee_pool: Addr,
    pub mock_pf: Addr,
    pub real_pf: Addr,
    pub token: Option<Addr>,
    pub vamm_code: u64,
    pub in_flight_keys: Vec<(String, Vec<u8>)>,
    /// 1.0 in raw units (10^decimals)
    pub d: u128,
    pub denom: &'static str,
}

pub fn len_prefixed(ns: &[u8]) -> Vec<u8> {
    let mut v = Vec::with_capacity(ns.len() + 2);
    v.extend_from_slice(&(ns.len() as u16).to_be_bytes());
    v.extend_from_slice(ns);
    v
}

/// storage key prefix cw-multi-test gives to the storage of `addr`
pub fn contract_prefix(addr: &str) -> Vec<u8> {
    let mut v = len_prefixed(b"wasm");
    v.extend(len_prefixed(format!("contract_data/{}", addr).as_bytes()));
    v
}

impl World {
    pub fn new(cfg: &Cfg) -> World {
        let cfg = &cfg.scaled_copy();
        assert!(cfg.cw20 || cfg.dec == 6, "the engine accepts only the 6-decimal native denominations ujunox / uwasm");
        let denom = denom_for(cfg.dec);
        let d = cfg.d();
        UNIT.with(|u| u.set(d));
        let store = SnapStorage::default();
        let tap = Tap::default();
        let mut keeper: WasmKeeper<Empty, Empty> = WasmKeeper::new();
        let fee_pool_id = keeper.store_code(Box::new(ContractWrapper::new_with_empty(
            margined_fee_pool::contract::execute,
            margined_fee_pool::contract::instantiate,
            margined_fee_pool::contract::query,
        ))) as u64;
        let engine_id = keeper.store_code(Box::new(
            ContractWrapper::new_with_empty(
                margined_engine::contract::execute,
                margined_engine::contract::instantiate,
                margined_engine::contract::query,
            )
            .with_reply(margined_engine::contract::reply),
        )) as u64;
        let vamm_id = keeper.store_code(Box::new(ContractWrapper::new_with_empty(
            margined_vamm::contract::execute,
            margined_vamm::contract::instantiate,
            margined_vamm::contract::query,
        ))) as u64;
        let if_id = keeper.store_code(Box::new(ContractWrapper::new_with_empty(
            margined_insurance_fund::contract::execute,
            margined_insurance_fund::contract::instantiate,
            margined_insurance_fund::contract::query,
        ))) as u64;
        let pf_id = keeper.store_code(Box::new(ContractWrapper::new_with_empty(
            mock_pricefeed::contract::execute,
            mock_pricefeed::contract::instantiate,
            mock_pricefeed::contract::query,
        ))) as u64;
        let cw20_id = keeper.store_code(Box::new(ContractWrapper::new_with_empty(
            cw20_base::contract::execute,
            cw20_base::contract::instantiate,
            cw20_base::contract::query,
        ))) as u64;
        let rpf_id = keeper.store_code(Box::new(ContractWrapper::new(
            margined_pricefeed::contract::execute,
            margined_pricefeed::contract::instantiate,
            margined_pricefeed::contract::query,
        ))) as u64;
        let owner = Addr::unchecked("owner");
        let wallet = cfg.wallet;
        let if_funds = cfg.if_funds;
        let mut app: MyApp = AppBuilder::new()
            .with_storage(store.clone())
            .with_bank(TapBank {
                inner: BankKeeper::new(),
                tap: tap.clone(),
            })
            .with_custom(NoCustom)
            .with_wasm::<NoCustom, _>(TapWasm {
                inner: keeper,
                tap: tap.clone(),
            })
            .build(|router, _, storage| {
                for a in WALLETS {
                    router
                        .bank
                        .inner
                        .init_balance(storage, &Addr::unchecked(a), vec![Coin::new(wallet, denom)])
                        .unwrap();
                }
                router
                    .bank
                    .inner
                    .init_balance(
                        storage,
                        &Addr::unchecked("bank"),
                        vec![Coin::new(if_funds, denom)],
                    )
                    .unwrap();
            });
        let token = if cfg.cw20 {
            let mut bals: Vec<cw20::Cw20Coin> = WALLETS
                .iter()
                .map(|a| cw20::Cw20Coin {
                    address: a.to_string(),
                    amount: Uint128::new(wallet),
                })
                .collect();
            bals.push(cw20::Cw20Coin {
                address: "bank".into(),
                amount: Uint128::new(if_funds),
            });
            Some(
                app.instantiate_contract(
                    cw20_id,
                    owner.clone(),
                    &cw20_base::msg::InstantiateMsg {
                        name: "USDC".into(),
                        symbol: "USDC".into(),
                        decimals: cfg.dec,
                        initial_balances: bals,
                        mint: None,
                        marketing: None,
                    },
                    &[],
                    "cw20",
                    None,
                )
                .unwrap(),
            )
        } else {
            None
        };
        let fee_pool = app
            .instantiate_contract(
                fee_pool_id,
                owner.clone(),
                &margined_perp::margined_fee_pool::InstantiateMsg {},
                &[],
                "fp",
                None,
            )
            .unwrap();
        let engine = app
            .instantiate_contract(
                engine_id,
                owner.clone(),
                &EngineInit {
                    pauser: owner.to_string(),
                    insurance_fund: "insurance_fund".into(),
                    fee_pool: fee_pool.to_string(),
                    eligible_collateral: token
                        .as_ref()
                        .map(|t| t.to_string())
                        .unwrap_or(denom.into()),
                    initial_margin_ratio: Uint128::new(cfg.imr),
                    maintenance_margin_ratio: Uint128::new(cfg.mmr),
                    liquidation_fee: Uint128::new(cfg.liq_fee),
                },
                &[],
                "engine",
                None,
            )
            .unwrap();
        let ifund = app
            .instantiate_contract(
                if_id,
                owner.clone(),
                &margined_perp::margined_insurance_fund::InstantiateMsg {
                    engine: engine.to_string(),
                },
                &[],
                "if",
                None,
            )
            .unwrap();
        if let Some(t) = &token {
            if if_funds > 0 {
                app.execute_contract(
                    Addr::unchecked("bank"),
                    t.clone(),
                    &cw20::Cw20ExecuteMsg::Transfer {
                        recipient: ifund.to_string(),
                        amount: Uint128::new(if_funds),
                    },
                    &[],
                )
                .unwrap();
            }
            for a in WALLETS {
                app.execute_contract(
                    Addr::unchecked(a),
                    t.clone(),
                    &cw20::Cw20ExecuteMsg::IncreaseAllowance {
                        spender: engine.to_string(),
                        amount: Uint128::new(u128::MAX / 4),
                        expires: None,
                    },
                    &[],
                )
                .unwrap();
            }
        } else if if_funds > 0 {
            app.send_tokens(
                Addr::unchecked("bank"),
                ifund.clone(),
                &[Coin::new(if_funds, denom)],
            )
            .unwrap();
        }
        app.execute_contract(
            owner.clone(),
            engine.clone(),
            &EngineExec::UpdateConfig {
                owner: None,
                insurance_fund: Some(ifund.to_string()),
                fee_pool: None,
                initial_margin_ratio: None,
                maintenance_margin_ratio: None,
                partial_liquidation_ratio: Some(Uint128::new(cfg.plr)),
                liquidation_fee: None,
            },
            &[],
        )
        .unwrap();
        let mock_pf = app
            .instantiate_contract(
                pf_id,
                owner.clone(),
                &margined_perp::margined_pricefeed::InstantiateMsg {
                    oracle_hub_contract: "oracle_hub".into(),
                },
                &[],
                "pf",
                None,
            )
            .unwrap();
        let real_pf = app
            .instantiate_contract(
                rpf_id,
                owner.clone(),
                &margined_perp::margined_pricefeed::InstantiateMsg {
                    oracle_hub_contract: "oracle_hub".into(),
                },
                &[],
                "rpf",
                None,
            )
            .unwrap();
        let mut w = World {
            cfg: cfg.clone(),
            app,
            store,
            tap,
            owner,
            engine,
            vamms: vec![],
            unregistered: None,
            vamm7: None,
            ifund,
            fee_pool,
            mock_pf,
            real_pf,
            token,
            vamm_code: vamm_id,
            in_flight_keys: vec![],
            d,
            denom,
        };
        for i in 0..cfg.n_vamms {
            let v = w.new_vamm(cfg.dec, &format!("vamm{}", i), cfg.quote_reserve, cfg.base_reserve);
            w.admin(&v.clone(), &VammExec::SetOpen { open: true });
            w.admin(
                &w.ifund.clone(),
                &IfExec::AddVamm {
                    vamm: v.to_string(),
                },
            );
            if cfg.vamm_if_other {
                w.admin(
                    &v.clone(),
                    &VammExec::UpdateConfig {
                        base_asset_holding_cap: None,
                        open_interest_notional_cap: None,
                        toll_ratio: None,
                        spread_ratio: None,
                        fluctuation_limit_ratio: None,
                        margin_engine: None,
                        insurance_fund: Some("other_ifund".into()),
                        pricefeed: None,
                        spot_price_twap_interval: None,
                    },
                );
            }
            if cfg.oi_cap > 0 || cfg.holding_cap > 0 {
                w.admin(
                    &v.clone(),
                    &VammExec::UpdateConfig {
                        base_asset_holding_cap: Some(Uint128::new(cfg.holding_cap)),
                        open_interest_notional_cap: Some(Uint128::new(cfg.oi_cap)),
                        toll_ratio: None,
                        spread_ratio: None,
                        fluctuation_limit_ratio: None,
                        margin_engine: None,
                        insurance_fund: None,
                        pricefeed: None,
                        spot_price_twap_interval: None,
                    },
                );
            }
            w.vamms.push(v);
        }
        if cfg.extra_unregistered {
            let v = w.new_vamm(cfg.dec, "vamm-unreg", cfg.quote_reserve, cfg.base_reserve);
            w.admin(&v.clone(), &VammExec::SetOpen { open: true });
            w.unregistered = Some(v);
        }
        if cfg.extra_7dec {
            let v = w.new_vamm(cfg.dec + 1, "vamm-7dec", cfg.quote_reserve * 10, cfg.base_reserve * 10);
            w.admin(&v.clone(), &VammExec::SetOpen { open: true });
            w.vamm7 = Some(v);
        }
        let now = w.now();
        let p0 = cfg.quote_reserve * d / cfg.base_reserve;
        for f in [w.mock_pf.clone(), w.real_pf.clone()] {
            w.admin(
                &f,
                &PfExec::AppendPrice {
                    key: "ETH".into(),
                    price: Uint128::new(p0),
                    timestamp: now,
                },
            );
        }
        // the deployment block is over: "the previous block" is defined for every explored step
        w.advance(1, 15);
        let ep = contract_prefix(w.engine.as_str());
        for k in ["tmp-swap", "sent-funds", "tmp-liquidator"] {
            let mut key = ep.clone();
            key.extend(len_prefixed(k.as_bytes()));
            w.in_flight_keys.push((k.to_string(), key));
        }
        w
    }

    pub fn new_vamm(&mut self, decimals: u8, label: &str, q: u128, b: u128) -> Addr {
        let feed = if self.cfg.real_feed {
            self.real_pf.clone()
        } else {
            self.mock_pf.clone()
        };
        self.app
            .instantiate_contract(
                self.vamm_code,
                self.owner.clone(),
                &VammInit {
                    decimals,
                    pricefeed: feed.to_string(),
                    margin_engine: Some(self.engine.to_string()),
                    insurance_fund: Some(self.ifund.to_string()),
                    quote_asset: "USD".into(),
                    base_asset: "ETH".into(),
                    quote_asset_reserve: Uint128::new(q),
                    base_asset_reserve: Uint128::new(b),
                    funding_period: self.cfg.funding_period,
                    toll_ratio: Uint128::new(self.cfg.toll * 10u128.pow((decimals - self.cfg.dec) as u32)),
                    spread_ratio: Uint128::new(self.cfg.spread * 10u128.pow((decimals - self.cfg.dec) as u32)),
                    fluctuation_limit_ratio: Uint128::new(
                        self.cfg.fluct * 10u128.pow((decimals - self.cfg.dec) as u32),
                    ),
                },
                &[],
                label,
                None,
            )
            .unwrap()
    }

    fn admin<T: Serialize + std::fmt::Debug>(&mut self, c: &Addr, msg: &T) {
        self.app
            .execute_contract(self.owner.clone(), c.clone(), msg, &[])
            .unwrap();
    }

    // ---------------------------------------------------------------- state
    pub fn snapshot(&self) -> Snap {
        Snap {
            kv: self.store.0.borrow().clone(),
            block: self.app.block_info(),
        }
    }
    pub fn restore(&mut self, s: &Snap) {
        UNIT.with(|u| u.set(self.d));
        *self.store.0.borrow_mut() = s.kv.clone();
        self.app.set_block(s.block.clone());
    }
    pub fn now(&self) -> u64 {
        self.app.block_info().time.seconds()
    }
    pub fn height(&self) -> u64 {
        self.app.block_info().height
    }
    pub fn advance_ms(&mut self, blocks: u64, secs: u64, ms: u64) {
        self.app.update_block(|b| {
            b.height += blocks;
            b.time = b.time.plus_seconds(secs).plus_nanos(ms * 1_000_000);
        });
    }
    pub fn advance(&mut self, blocks: u64, secs: u64) {
        self.app.update_block(|b| {
            b.height += blocks;
            b.time = b.time.plus_seconds(secs);
        });
    }

    // ---------------------------------------------------------------- execution
    /// Executes one transaction. A panic inside a contract is an aborted transaction: the store is
    /// put back to the pre-image. `fail_at`: dispatch index forced to fail.
    pub fn exec_full<T: Serialize + std::fmt::Debug>(
        &mut self,
        sender: &str,
        c: &Addr,
        msg: &T,
        funds: u128,
        fail_at: Option<u32>,
    ) -> Outcome {
        let f = if funds > 0 {
            vec![Coin::new(funds, self.denom)]
        } else {
            vec![]
        };
        self.tap.reset(fail_at);
        let snap = self.store.0.borrow().clone();
        IN_CONTRACT.with(|c| c.set(true));
        let r = std::panic::catch_unwind(std::panic::AssertUnwindSafe(|| {
            self.app
                .execute_contract(Addr::unchecked(sender), c.clone(), msg, &f)
        }));
        IN_CONTRACT.with(|c| c.set(false));
        let n = self.tap.counter.get();
        self.tap.fail_at.set(None);
        match r {
            Ok(Ok(_)) => Outcome {
                ok: true,
                panicked: false,
                err: String::new(),
                dispatches: n,
            },
            Ok(Err(e)) => Outcome {
                ok: false,
                panicked: false,
                err: format!("{:#}", e).chars().take(400).collect(),
                dispatches: n,
            },
            Err(_) => {
                *self.store.0.borrow_mut() = snap;
                Outcome {
                    ok: false,
                    panicked: true,
                    err: "PANIC".into(),
                    dispatches: n,
                }
            }
        }
    }
    pub fn exec<T: Serialize + std::fmt::Debug>(
        &mut self,
        sender: &str,
        c: &Addr,
        msg: &T,
        funds: u128,
    ) -> Outcome {
        self.exec_full(sender, c, msg, funds, None)
    }
    /// execute a message given as JSON (serialised with serde_json, not serde-json-wasm)
    pub fn exec_json(&mut self, sender: &str, c: &Addr, msg: &serde_json::Value) -> Outcome {
        self.tap.reset(None);
        let snap = self.store.0.borrow().clone();
        let cm = cosmwasm_std::CosmosMsg::Wasm(cosmwasm_std::WasmMsg::Execute {
            contract_addr: c.to_string(),
            msg: cosmwasm_std::Binary(serde_json::to_vec(msg).unwrap()),
            funds: vec![],
        });
        IN_CONTRACT.with(|c| c.set(true));
        let r = std::panic::catch_unwind(std::panic::AssertUnwindSafe(|| {
            self.app.execute(Addr::unchecked(sender), cm)
        }));
        IN_CONTRACT.with(|c| c.set(false));
        let n = self.tap.counter.get();
        match r {
            Ok(Ok(_)) => Outcome { ok: true, panicked: false, err: String::new(), dispatches: n },
            Ok(Err(e)) => Outcome { ok: false, panicked: false, err: format!("{:#}", e).chars().take(400).collect(), dispatches: n },
            Err(_) => {
                *self.store.0.borrow_mut() = snap;
                Outcome { ok: false, panicked: true, err: "PANIC".into(), dispatches: n }
            }
        }
    }
    pub fn engine_exec(&mut self, sender: &str, msg: &EngineExec, funds: u128) -> Outcome {
        let e = self.engine.clone();
        self.exec_full(sender, &e, msg, funds, None)
    }

    // ---------------------------------------------------------------- queries
    pub fn q<T: DeserializeOwned, M: Serialize>(&self, c: &Addr, m: &M) -> Result<T, String> {
        let was = IN_CONTRACT.with(|c| c.replace(true));
        let r = std::panic::catch_unwind(std::panic::AssertUnwindSafe(|| {
            self.app
                .wrap()
                .query_wasm_smart::<T>(c.clone(), m)
                .map_err(|e| e.to_string())
        }));
        IN_CONTRACT.with(|c| c.set(was));
        match r {
            Ok(x) => x,
            Err(_) => Err("PANIC".into()),
        }
    }
    pub fn bal(&self, who: &str) -> u128 {
        match &self.token {
            None => self
                .app
                .wrap()
                .query_balance(who, self.denom)
                .unwrap()
                .amount
                .u128(),
            Some(t) => {
                let r: cw20::BalanceResponse = self
                    .app
                    .wrap()
                    .query_wasm_smart(
                        t.clone(),
                        &cw20::Cw20QueryMsg::Balance {
                            address: who.into(),
                        },
                    )
                    .unwrap();
                r.balance.u128()
            }
        }
    }
    /// move the whole balance of the (never trading) "stranger" wallet into the insurance fund; used to
    /// build the rich-fund twin of a pre-state. Returns the amount moved.
    pub fn top_up_ifund(&mut self) -> u128 {
        let amt = self.bal("stranger");
        if amt == 0 {
            return 0;
        }
        let ifund = self.ifund.clone();
        match self.token.clone() {
            Some(t) => {
                self.app
                    .execute_contract(
                        Addr::unchecked("stranger"),
                        t,
                        &cw20::Cw20ExecuteMsg::Transfer { recipient: ifund.to_string(), amount: Uint128::new(amt) },
                        &[],
                    )
                    .unwrap();
            }
            None => {
                self.app
                    .send_tokens(Addr::unchecked("stranger"), ifund, &[Coin::new(amt, self.denom)])
                    .unwrap();
            }
        }
        amt
    }
    /// make the insurance fund hold exactly `target`: the surplus is moved to the (never trading) "bank" wallet,
    /// a deficit is filled from "stranger". This builds the state of a deployment whose fund was funded
    /// differently; only the collateral ledger differs from the given state. Returns false if the deficit
    /// cannot be filled.
    pub fn set_ifund_balance(&mut self, target: u128) -> bool {
        let cur = self.bal(self.ifund.as_str());
        let ifund = self.ifund.clone();
        let (from, to, amt) = if cur > target {
            (ifund, Addr::unchecked("bank"), cur - target)
        } else if cur < target {
            if self.bal("stranger") < target - cur {
                return false;
            }
            (Addr::unchecked("stranger"), ifund, target - cur)
        } else {
            return true;
        };
        match self.token.clone() {
            Some(t) => {
                self.app
                    .execute_contract(from, t, &cw20::Cw20ExecuteMsg::Transfer { recipient: to.to_string(), amount: Uint128::new(amt) }, &[])
                    .unwrap();
            }
            None => {
                self.app.send_tokens(from, to, &[Coin::new(amt, self.denom)]).unwrap();
            }
        }
        true
    }
    pub fn total_supply(&self) -> Option<u128> {
        self.token.as_ref().map(|t| {
            let r: cw20::TokenInfoResponse = self
                .app
                .wrap()
                .query_wasm_smart(t.clone(), &cw20::Cw20QueryMsg::TokenInfo {})
                .unwrap();
            r.total_supply.u128()
        })
    }
    pub fn pos(&self, v: usize, who: &str) -> Option<Position> {
        self.q(
            &self.engine,
            &EngineQuery::Position {
                vamm: self.vamms[v].to_string(),
                trader: who.into(),
            },
        )
        .ok()
    }
    pub fn pos_at(&self, vamm: &Addr, who: &str) -> Option<Position> {
        self.q(
            &self.engine,
            &EngineQuery::Position {
                vamm: vamm.to_string(),
                trader: who.into(),
            },
        )
        .ok()
    }
    pub fn margin_ratio(&self, v: usize, who: &str) -> Result<Integer, String> {
        self.q(
            &self.engine,
            &EngineQuery::MarginRatio {
                vamm: self.vamms[v].to_string(),
                trader: who.into(),
            },
        )
    }
    pub fn free_collateral(&self, v: usize, who: &str) -> Result<Integer, String> {
        self.q(
            &self.engine,
            &EngineQuery::FreeCollateral {
                vamm: self.vamms[v].to_string(),
                trader: who.into(),
            },
        )
    }
    pub fn cum_premium(&self, v: usize) -> Integer {
        self.q(
            &self.engine,
            &EngineQuery::CumulativePremiumFraction {
                vamm: self.vamms[v].to_string(),
            },
        )
        .unwrap()
    }
    pub fn eng_state(&self) -> EngState {
        self.q(&self.engine, &EngineQuery::State {}).unwrap()
    }
    /// the configuration in force: `cfg` with the updatable ratios read back from the engine and from vAMM `v`
    /// (explorations may change them mid-history)
    pub fn live_cfg(&self, v: usize) -> Cfg {
        let mut c = self.cfg.clone();
        let e = self.eng_cfg();
        c.imr = e.initial_margin_ratio.u128();
        c.mmr = e.maintenance_margin_ratio.u128();
        c.plr = e.partial_liquidation_ratio.u128();
        c.liq_fee = e.liquidation_fee.u128();
        if v < self.vamms.len() {
            let vc = self.vcfg(v);
            c.toll = vc.toll_ratio.u128();
            c.spread = vc.spread_ratio.u128();
            c.fluct = vc.fluctuation_limit_ratio.u128();
        }
        c
    }
    pub fn eng_cfg(&self) -> EngCfg {
        self.q(&self.engine, &EngineQuery::Config {}).unwrap()
    }
    pub fn vstate(&self, v: usize) -> VammState {
        self.q(&self.vamms[v], &VammQuery::State {}).unwrap()
    }
    pub fn vstate_at(&self, vamm: &Addr) -> VammState {
        self.q(vamm, &VammQuery::State {}).unwrap()
    }
    pub fn vcfg(&self, v: usize) -> VammCfg {
        self.q(&self.vamms[v], &VammQuery::Config {}).unwrap()
    }
    pub fn vq<T: DeserializeOwned>(&self, v: usize, q: &VammQuery) -> Result<T, String> {
        self.q(&self.vamms[v], q)
    }
    pub fn spot(&self, v: usize) -> u128 {
        self.vq::<Uint128>(v, &VammQuery::SpotPrice {})
            .unwrap()
            .u128()
    }
    pub fn out_amount(&self, v: usize, dir: Direction, amount: u128) -> Result<u128, String> {
        self.vq::<Uint128>(
            v,
            &VammQuery::OutputAmount {
                direction: dir,
                amount: Uint128::new(amount),
            },
        )
        .map(|x| x.u128())
    }
    pub fn out_twap(&self, v: usize, dir: Direction, amount: u128) -> Result<u128, String> {
        self.vq::<Uint128>(
            v,
            &VammQuery::OutputTwap {
                direction: dir,
                amount: Uint128::new(amount),
            },
        )
        .map(|x| x.u128())
    }
    pub fn calc_fee(&self, v: usize, notional: u128) -> (u128, u128) {
        let r: CalcFeeResponse = self
            .vq(
                v,
                &VammQuery::CalcFee {
                    quote_asset_amount: Uint128::new(notional),
                },
            )
            .unwrap();
        (r.spread_fee.u128(), r.toll_fee.u128())
    }
    pub fn feed(&self) -> Addr {
        if self.cfg.real_feed {
            self.real_pf.clone()
        } else {
            self.mock_pf.clone()
        }
    }
    /// per-block price band of vAMM `v` as the statement defines it: [1-limit, 1+limit] x the price at
    /// the end of the previous block (read from the vAMM's raw reserve snapshots); None when the
    /// limit is 0
    pub fn vamm_band(&self, v: usize) -> Option<(u128, u128)> {
        let limit = self.vcfg(v).fluctuation_limit_ratio.u128();
        if limit == 0 {
            return None;
        }
        let mut p = contract_prefix(self.vamms[v].as_str());
        p.extend(len_prefixed(b"reserve_snapshot"));
        let m = self.store.0.borrow();
        let mut snaps: Vec<(u64, u128, u128, u64)> = vec![];
        for (k, val) in m.iter() {
            if k.starts_with(&p) && k.len() == p.len() + 8 {
                let mut ib = [0u8; 8];
                ib.copy_from_slice(&k[p.len()..]);
                let j: serde_json::Value = serde_json::from_slice(val).unwrap_or_default();
                let g = |f: &str| -> u128 { j[f].as_str().and_then(|s| s.parse().ok()).unwrap_or(0) };
                snaps.push((u64::from_be_bytes(ib), g("quote_asset_reserve"), g("base_asset_reserve"), j["block_height"].as_u64().unwrap_or(0)));
            }
        }
        drop(m);
        snaps.sort();
        let h = self.height();
        let last = snaps.iter().rev().find(|s| s.3 != h).or(snaps.first())?;
        if last.2 == 0 {
            return None;
        }
        let d = self.d;
        let price = last.1 * d / last.2;
        Some((price * (d - limit) / d, price * (d + limit) / d))
    }
    /// the vAMM's raw reserve snapshots in index order: (quote reserve, base reserve, timestamp in seconds)
    pub fn vamm_snapshots(&self, v: usize) -> Vec<(u128, u128, u64)> {
        let mut p = contract_prefix(self.vamms[v].as_str());
        p.extend(len_prefixed(b"reserve_snapshot"));
        let m = self.store.0.borrow();
        let mut snaps: Vec<(u64, u128, u128, u64)> = vec![];
        for (k, val) in m.iter() {
            if k.starts_with(&p) && k.len() == p.len() + 8 {
                let mut ib = [0u8; 8];
                ib.copy_from_slice(&k[p.len()..]);
                let j: serde_json::Value = serde_json::from_slice(val).unwrap_or_default();
                let g = |f: &str| -> u128 { j[f].as_str().and_then(|s| s.parse().ok()).unwrap_or(0) };
                snaps.push((u64::from_be_bytes(ib), g("quote_asset_reserve"), g("base_asset_reserve"), (g("timestamp") / 1_000_000_000) as u64));
            }
        }
        snaps.sort();
        snaps.into_iter().map(|s| (s.1, s.2, s.3)).collect()
    }
    /// Reference for the vAMM's time-weighted closing quote (OutputTwap): the quote the curve would exchange for
    /// `amount` base at each reserve snapshot (q*s/(b+s) rounded down when base is added, q*s/(b-s) rounded up when it
    /// is removed), each weighted by the time the snapshot was in effect inside [now - interval, now] (the covered
    /// period if the history is shorter). None if a snapshot cannot fill the trade or the layout is unreadable.
    pub fn ref_out_twap(&self, v: usize, dir: &Direction, amount: u128, interval: u64) -> Option<u128> {
        let snaps = self.vamm_snapshots(v);
        if snaps.is_empty() || amount == 0 {
            return None;
        }
        let now = self.now();
        let start = now.saturating_sub(interval);
        let value = |q: u128, b: u128| -> Option<u128> {
            use cosmwasm_std::Uint256;
            let (q, b, s) = (Uint256::from(q), Uint256::from(b), Uint256::from(amount));
            let r = match dir {
                Direction::AddToAmm => q * s / (b + s),
                Direction::RemoveFromAmm => {
                    if b <= s {
                        return None;
                    }
                    let d = b - s;
                    (q * s + d - Uint256::from(1u8)) / d
                }
            };
            r.to_string().parse::<u128>().ok()
        };
        let mut acc: u128 = 0;
        let mut covered: u64 = 0;
        let mut upper = now;
        for (q, b, ts) in snaps.iter().rev() {
            let lower = (*ts).max(start);
            if upper > lower {
                let dt = upper - lower;
                acc = acc.checked_add(value(*q, *b)?.checked_mul(dt as u128)?)?;
                covered += dt;
            }
            if *ts <= start {
                break;
            }
            upper = lower;
        }
        if covered == 0 {
            let (q, b, _) = snaps.last()?;
            return value(*q, *b);
        }
        Some(acc / covered as u128)
    }
    /// Reference for the vAMM's time-weighted spot price over `interval`: q*D/b at each reserve snapshot, weighted by
    /// the time the snapshot was in effect inside [now - interval, now] (the covered period if the history is shorter)
    pub fn ref_spot_twap(&self, v: usize, interval: u64) -> Option<u128> {
        let snaps = self.vamm_snapshots(v);
        if snaps.is_empty() {
            return None;
        }
        let now = self.now();
        let start = now.saturating_sub(interval);
        let d = self.d;
        let value = |q: u128, b: u128| -> Option<u128> { if b == 0 { None } else { q.checked_mul(d).map(|x| x / b) } };
        let (mut acc, mut covered, mut upper) = (0u128, 0u64, now);
        for (q, b, ts) in snaps.iter().rev() {
            let lower = (*ts).max(start);
            if upper > lower {
                let dt = upper - lower;
                acc = acc.checked_add(value(*q, *b)?.checked_mul(dt as u128)?)?;
                covered += dt;
            }
            if *ts <= start {
                break;
            }
            upper = lower;
        }
        if covered == 0 {
            let (q, b, _) = snaps.last()?;
            return value(*q, *b);
        }
        Some(acc / covered as u128)
    }
    /// raw engine position records: storage key suffix -> bytes
    pub fn raw_positions(&self) -> BTreeMap<Vec<u8>, Vec<u8>> {
        let mut p = contract_prefix(self.engine.as_str());
        p.extend(len_prefixed(b"position"));
        self.store
            .0
            .borrow()
            .iter()
            .filter(|(k, _)| k.starts_with(&p))
            .map(|(k, v)| (k[p.len()..].to_vec(), v.clone()))
            .collect()
    }
    pub fn in_flight(&self) -> Vec<String> {
        let m = self.store.0.borrow();
        self.in_flight_keys
            .iter()
            .filter(|(_, k)| m.contains_key(k))
            .map(|(n, _)| n.clone())
            .collect()
    }
    pub fn side(buy: bool) -> Side {
        if buy {
            Side::Buy
        } else {
            Side::Sell
        }
    }
}

pub fn itoi(i: &Integer) -> i128 {
    if i.negative {
        -(i.value.u128() as i128)
    } else {
        i.value.u128() as i128
    }
}
