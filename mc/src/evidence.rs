//! Evidence files, replay files, known-findings matching.
use std::collections::BTreeMap;
use std::time::Instant;

use serde::Serialize;
use serde_json::{json, Value};

use crate::explorer::*;

/// root of the verification tree (exported by ./check as VERIF_DIR; a background snapshot writes into itself)
pub fn verif_dir() -> String {
    std::env::var("VERIF_DIR").unwrap_or_else(|_| "/verif".to_string())
}

/// serde_json::Value cannot hold u128; go through text (all our amounts fit u64)
pub fn to_val<T: Serialize>(t: &T) -> Value {
    serde_json::from_str(&serde_json::to_string(t).expect("serialize")).expect("reparse")
}
pub fn from_val<T: serde::de::DeserializeOwned>(v: &Value) -> T {
    serde_json::from_str(&v.to_string()).expect("deserialize")
}

#[derive(Clone, Debug, PartialEq)]
pub enum Tier {
    Quick,
    Thorough,
}
impl Tier {
    pub fn name(&self) -> &'static str {
        match self {
            Tier::Quick => "quick",
            Tier::Thorough => "thorough",
        }
    }
    pub fn pick<T>(&self, q: T, t: T) -> T {
        match self {
            Tier::Quick => q,
            Tier::Thorough => t,
        }
    }
}

pub struct FoundRec {
    pub exploration: String,
    pub params: Value,
    pub sig: String,
    pub detail: String,
    pub count: u64,
    pub path: Value,
    pub depth: usize,
}

pub struct Run {
    pub prop: String,
    pub tier: Tier,
    pub seed: i64,
    pub t0: Instant,
    pub explorations: Vec<Value>,
    pub states: u64,
    pub transitions: u64,
    pub executions: u64,
    pub tags: BTreeMap<String, u64>,
    pub found: Vec<FoundRec>,
    pub samples: Vec<Value>,
    pub exhaustive: bool,
    pub caps: Vec<String>,
    pub assumptions: Vec<String>,
    pub rule: String,
    /// tags counted as non-trivial oracle evaluations
    pub nontrivial: Vec<String>,
    pub repo_hash: String,
}

impl Run {
    pub fn new(prop: &str, tier: Tier) -> Run {
        Run {
            prop: prop.to_string(),
            tier,
            seed: std::env::var("VERIF_SEED")
                .ok()
                .and_then(|x| x.parse().ok())
                .unwrap_or(0),
            t0: Instant::now(),
            explorations: vec![],
            states: 0,
            transitions: 0,
            executions: 0,
            tags: BTreeMap::new(),
            found: vec![],
            samples: vec![],
            exhaustive: true,
            caps: vec![],
            assumptions: vec![],
            rule: String::new(),
            nontrivial: vec![],
            repo_hash: std::env::var("VERIF_REPO_HASH").unwrap_or_default(),
        }
    }

    /// Run one exhaustive exploration and fold its report in.
    pub fn explore<M: Model>(
        &mut self,
        name: &str,
        params: Value,
        model: &M,
        seeds: &[Vec<M::Act>],
        lim: &Limits,
    ) where
        M::Act: Serialize,
    {
        // detection runs only (seeded/run_parallel.sh sets VERIF_DETECT_ONLY): once an unlisted violation has been
        // found, the remaining explorations are skipped - the verdict is already "violation". Registered commands
        // never set it; the evidence then says so (exhaustive = false, cap recorded).
        if std::env::var("VERIF_DETECT_ONLY").is_ok() {
            let known = load_known();
            if self.found.iter().any(|f| !known.iter().any(|k| k.matches(&self.prop, &f.sig))) {
                self.exhaustive = false;
                self.caps.push(format!("{}: skipped (VERIF_DETECT_ONLY, a violation was already found)", name));
                return;
            }
        }
        let rep = bfs(model, seeds, lim);
        // determinism self-checks (a divergence is a machinery error, never a verdict)
        if let Some(path) = rep.sample_paths.iter().find(|p| !p.is_empty()) {
            let run_once = || {
                let mut ctx = model.make_ctx();
                let mut s = model.initial(&mut ctx);
                for a in path {
                    let mut o = StepOut::default();
                    match model.step(&mut ctx, &s, a, &mut o) {
                        Some(ns) => s = ns,
                        None => break,
                    }
                }
                model.key(&s)
            };
            if run_once() != run_once() {
                eprintln!("MACHINERY-ERROR: replaying one recorded trace twice reached different states ({} / {})", self.prop, name);
                std::process::exit(2);
            }
            self.tag("selfcheck:trace-replayed-twice-identical", 1);
        }
        if self.tier == Tier::Thorough && lim.workers > 1 {
            let small = Limits { depth: lim.depth.min(2), max_states: lim.max_states, max_secs: lim.max_secs, workers: 1 };
            let r1 = bfs(model, seeds, &small);
            for (i, l) in r1.levels.iter().enumerate() {
                if rep.levels.get(i) != Some(l) {
                    eprintln!("MACHINERY-ERROR: per-level counts differ between 1 and {} workers at level {} ({:?} vs {:?}) ({} / {})", lim.workers, i, l, rep.levels.get(i), self.prop, name);
                    std::process::exit(2);
                }
            }
            self.tag("selfcheck:1-vs-n-workers-level-counts-equal", 1);
        }
        eprintln!(
            "[{}] {} : depth {} states {} transitions {} executions {} viol-classes {} {:.1}s{}",
            self.prop,
            name,
            rep.depth_completed,
            rep.states,
            rep.transitions,
            rep.executions,
            rep.found.len(),
            rep.wall_s,
            rep.capped
                .as_ref()
                .map(|c| format!(" CAPPED: {}", c))
                .unwrap_or_default()
        );
        self.states += rep.states;
        self.transitions += rep.transitions;
        self.executions += rep.executions;
        for (k, v) in &rep.tags {
            *self.tags.entry(k.clone()).or_default() += v;
        }
        if let Some(c) = &rep.capped {
            self.exhaustive = false;
            self.caps.push(format!("{}: {}", name, c));
        }
        self.explorations.push(json!({
            "name": name,
            "params": params,
            "seeds": seeds.len(),
            "depth_bound": lim.depth,
            "depth_completed": rep.depth_completed,
            "states": rep.states,
            "transitions": rep.transitions,
            "executions": rep.executions,
            "levels": rep.levels.iter().map(|(d, n, t)| json!({"depth": d, "new_states": n, "transitions": t})).collect::<Vec<_>>(),
            "wall_s": rep.wall_s,
            "capped": rep.capped,
        }));
        if self.samples.len() < 4 {
            if let Some(p) = rep.sample_paths.iter().find(|p| !p.is_empty()) {
                self.samples
                    .push(json!({"exploration": name, "trace": to_val(p)}));
            }
        }
        for f in rep.found {
            if std::env::var("VERIF_DEBUG").is_ok() {
                eprintln!("   found [{}x] {} :: {} :: {}", f.count, f.sig, f.detail, to_val(&f.path));
            }
            self.found.push(FoundRec {
                exploration: name.to_string(),
                params: params.clone(),
                sig: f.sig,
                detail: f.detail,
                count: f.count,
                path: to_val(&f.path),
                depth: f.depth,
            });
        }
    }

    pub fn tag(&mut self, t: &str, n: u64) {
        *self.tags.entry(t.to_string()).or_default() += n;
    }

    /// Write evidence + replay files, print verdict lines, return the process exit code.
    pub fn finish(mut self) -> i32 {
        let known = load_known();
        let mut violations = 0;
        let mut known_hits: BTreeMap<String, (String, u64)> = BTreeMap::new();
        let mut unlisted: BTreeMap<String, &FoundRec> = BTreeMap::new();
        for f in &self.found {
            match known.iter().find(|k| k.matches(&self.prop, &f.sig)) {
                Some(k) => {
                    let e = known_hits
                        .entry(k.signature.clone())
                        .or_insert((k.what.clone(), 0));
                    e.1 += f.count;
                }
                None => {
                    unlisted.entry(f.sig.clone()).or_insert(f);
                }
            }
        }
        for (sig, (what, n)) in &known_hits {
            println!(
                "KNOWN-FINDING: property={} {} [signature {} ; {} instance(s) this run]",
                self.prop, what, sig, n
            );
        }
        let mut replay_files = vec![];
        for (sig, f) in &unlisted {
            violations += 1;
            let h = hash_parts(&[sig.as_bytes(), f.exploration.as_bytes()]);
            let name = format!(
                "{}/replays/{}-{}.json",
                verif_dir(),
                self.prop,
                h.iter().take(6).map(|b| format!("{:02x}", b)).collect::<String>()
            );
            let _ = std::fs::create_dir_all(format!("{}/replays", verif_dir()));
            let body = json!({
                "property": self.prop,
                "exploration": f.exploration,
                "params": f.params,
                "signature": sig,
                "detail": f.detail,
                "actions": f.path,
                "instances_this_run": f.count,
            });
            let _ = std::fs::write(&name, serde_json::to_string_pretty(&body).unwrap());
            println!("VIOLATION property={} replay={}", self.prop, name);
            eprintln!("  signature: {}\n  detail: {}\n  trace: {}", sig, f.detail, f.path);
            replay_files.push(name);
        }
        if self.samples.is_empty() {
            self.samples.push(json!("no trace sample (non-trace exploration)"));
        }
        let nontrivial: u64 = self
            .nontrivial
            .iter()
            .map(|k| {
                self.tags
                    .iter()
                    .filter(|(t, _)| {
                        if let Some(p) = k.strip_suffix('*') {
                            t.starts_with(p)
                        } else {
                            *t == k
                        }
                    })
                    .map(|(_, v)| *v)
                    .sum::<u64>()
            })
            .sum();
        let ev = json!({
            "property_id": self.prop,
            "tier": self.tier.name(),
            "seed": self.seed,
            "level": "model_checking",
            "coverage": {
                "states": self.states.max(1),
                "transitions": self.transitions.max(1),
                "traces_validated_against_impl": self.transitions,
                "evaluations": self.executions.max(self.transitions).max(1),
                "distinct_nontrivial": nontrivial,
                "rule": format!("{} Counting: every distinct state is expanded exactly once, so each counted case is a distinct (state, action) pair (for C19: a distinct ordered operand pair and operator).", self.rule),
                "samples": self.samples,
                "exhaustive": self.exhaustive,
                "caps_hit": self.caps,
                "explorations": self.explorations,
                "counters": self.tags,
                "known_findings_seen": known_hits.iter().map(|(s,(w,n))| json!({"signature": s, "what": w, "instances": n})).collect::<Vec<_>>(),
                "violation_replays": replay_files,
                "explanation": "explicit-state BFS over the real contracts (cw-multi-test); every transition is an implementation transaction, so every explored trace is validated against the implementation by construction; `executions` additionally counts fault-injected / differential re-executions",
                "repo_source_hash": self.repo_hash,
            },
            "assumptions": self.assumptions,
            "wall_s": self.t0.elapsed().as_secs_f64(),
            "violations": violations,
        });
        let _ = std::fs::create_dir_all(format!("{}/evidence", verif_dir()));
        std::fs::write(
            format!("{}/evidence/{}.json", verif_dir(), self.prop),
            serde_json::to_string_pretty(&ev).unwrap(),
        )
        .expect("write evidence");
        eprintln!(
            "[{}] {} total: states {} transitions {} executions {} nontrivial {} violations {} known {} wall {:.1}s",
            self.prop,
            self.tier.name(),
            self.states,
            self.transitions,
            self.executions,
            nontrivial,
            violations,
            known_hits.len(),
            self.t0.elapsed().as_secs_f64()
        );
        if violations > 0 {
            1
        } else {
            0
        }
    }
}

#[derive(Clone, Debug)]
pub struct Known {
    pub property: String,
    pub signature: String,
    pub what: String,
    pub status: String,
}
impl Known {
    pub fn matches(&self, prop: &str, sig: &str) -> bool {
        if self.property != prop || self.status.starts_with("fixed") {
            return false;
        }
        if let Some(p) = self.signature.strip_suffix('*') {
            sig.starts_with(p)
        } else {
            self.signature == sig
        }
    }
}

pub fn load_known() -> Vec<Known> {
    let p = format!("{}/known_findings.json", verif_dir());
    let s = match std::fs::read_to_string(&p) {
        Ok(s) => s,
        Err(_) => return vec![],
    };
    let v: Value = serde_json::from_str(&s).expect("known_findings.json parses");
    v["findings"]
        .as_array()
        .map(|a| {
            a.iter()
                .map(|e| Known {
                    property: e["property"].as_str().unwrap_or("").into(),
                    signature: e["signature"].as_str().unwrap_or("").into(),
                    what: e["what"].as_str().unwrap_or("").into(),
                    status: e["status"].as_str().unwrap_or("open").into(),
                })
                .collect()
        })
        .unwrap_or_default()
}
