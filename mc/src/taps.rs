//! Snapshot-able storage and router taps (dispatch log + fault injection) for cw-multi-test.
use std::cell::{Cell, RefCell};
use std::collections::BTreeMap;
use std::rc::Rc;

use anyhow::{bail, Result as AnyResult};
use cosmwasm_std::testing::MockApi;
use cosmwasm_std::{
    Addr, Api, BankMsg, BankQuery, Binary, BlockInfo, CustomQuery, Empty, Order, Querier, Record,
    Storage, WasmMsg, WasmQuery,
};
use cw_multi_test::{
    App, AppResponse, Bank, BankKeeper, BankSudo, CosmosRouter, FailingDistribution,
    FailingStaking, Module, Wasm, WasmKeeper,
};
use schemars::JsonSchema;
use serde::de::DeserializeOwned;

pub type Kv = BTreeMap<Vec<u8>, Vec<u8>>;

#[derive(Clone, Default)]
pub struct SnapStorage(pub Rc<RefCell<Kv>>);

impl Storage for SnapStorage {
    fn get(&self, key: &[u8]) -> Option<Vec<u8>> {
        self.0.borrow().get(key).cloned()
    }
    fn range<'a>(
        &'a self,
        start: Option<&[u8]>,
        end: Option<&[u8]>,
        order: Order,
    ) -> Box<dyn Iterator<Item = Record> + 'a> {
        let m = self.0.borrow();
        let s = start.map(|s| s.to_vec());
        let e = end.map(|s| s.to_vec());
        let v: Vec<Record> = m
            .iter()
            .filter(|(k, _)| {
                s.as_ref().map_or(true, |s| *k >= s) && e.as_ref().map_or(true, |e| *k < e)
            })
            .map(|(k, v)| (k.clone(), v.clone()))
            .collect();
        match order {
            Order::Ascending => Box::new(v.into_iter()),
            Order::Descending => Box::new(v.into_iter().rev()),
        }
    }
    fn set(&mut self, key: &[u8], value: &[u8]) {
        self.0.borrow_mut().insert(key.to_vec(), value.to_vec());
    }
    fn remove(&mut self, key: &[u8]) {
        self.0.borrow_mut().remove(key);
    }
}

#[derive(Clone, Debug, PartialEq)]
pub enum DKind {
    Wasm,
    Bank,
}

/// One message dispatched by the chain router while executing a transaction.
#[derive(Clone, Debug)]
pub struct Dispatch {
    pub idx: u32,
    pub kind: DKind,
    pub sender: String,
    /// contract address (wasm) or recipient (bank send)
    pub target: String,
    /// decoded execute message (wasm) or `{"send": "<amount>", "denom": ..}` (bank)
    pub msg: serde_json::Value,
    /// native funds attached (wasm) / sent (bank)
    pub funds: Vec<(String, u128)>,
    /// did this dispatch (including everything it triggered) succeed
    pub ok: bool,
    /// the dispatch was the one chosen for fault injection
    pub injected: bool,
    /// wasm events of the response (type, attributes)
    pub events: Vec<(String, Vec<(String, String)>)>,
}

#[derive(Clone, Default)]
pub struct Tap {
    pub counter: Rc<Cell<u32>>,
    pub fail_at: Rc<Cell<Option<u32>>>,
    pub log: Rc<RefCell<Vec<Dispatch>>>,
}

impl Tap {
    pub fn reset(&self, fail_at: Option<u32>) {
        self.counter.set(0);
        self.fail_at.set(fail_at);
        self.log.borrow_mut().clear();
    }
    fn begin(&self, mut d: Dispatch) -> AnyResult<usize> {
        let n = self.counter.get();
        self.counter.set(n + 1);
        d.idx = n;
        let inject = self.fail_at.get() == Some(n);
        d.injected = inject;
        let mut log = self.log.borrow_mut();
        log.push(d);
        let pos = log.len() - 1;
        drop(log);
        if inject {
            bail!("injected fault at dispatch {}", n);
        }
        Ok(pos)
    }
    fn end(&self, pos: usize, r: &AnyResult<AppResponse>) {
        let mut log = self.log.borrow_mut();
        if let Some(d) = log.get_mut(pos) {
            match r {
                Ok(resp) => {
                    d.ok = true;
                    d.events = resp
                        .events
                        .iter()
                        .map(|e| {
                            (
                                e.ty.clone(),
                                e.attributes
                                    .iter()
                                    .map(|a| (a.key.clone(), a.value.clone()))
                                    .collect(),
                            )
                        })
                        .collect();
                }
                Err(_) => d.ok = false,
            }
        }
    }
}

pub struct TapWasm {
    pub inner: WasmKeeper<Empty, Empty>,
    pub tap: Tap,
}

impl Wasm<Empty, Empty> for TapWasm {
    fn query(
        &self,
        api: &dyn Api,
        storage: &dyn Storage,
        querier: &dyn Querier,
        block: &BlockInfo,
        request: WasmQuery,
    ) -> AnyResult<Binary> {
        self.inner.query(api, storage, querier, block, request)
    }
    fn execute(
        &self,
        api: &dyn Api,
        storage: &mut dyn Storage,
        router: &dyn CosmosRouter<ExecC = Empty, QueryC = Empty>,
        block: &BlockInfo,
        sender: Addr,
        msg: WasmMsg,
    ) -> AnyResult<AppResponse> {
        let d = match &msg {
            WasmMsg::Execute {
                contract_addr,
                msg,
                funds,
            } => Dispatch {
                idx: 0,
                kind: DKind::Wasm,
                sender: sender.to_string(),
                target: contract_addr.clone(),
                msg: serde_json::from_slice(msg.as_slice()).unwrap_or(serde_json::Value::Null),
                funds: funds
                    .iter()
                    .map(|c| (c.denom.clone(), c.amount.u128()))
                    .collect(),
                ok: false,
                injected: false,
                events: vec![],
            },
            _ => Dispatch {
                idx: 0,
                kind: DKind::Wasm,
                sender: sender.to_string(),
                target: "<non-execute>".into(),
                msg: serde_json::Value::Null,
                funds: vec![],
                ok: false,
                injected: false,
                events: vec![],
            },
        };
        let pos = self.tap.begin(d)?;
        let r = self.inner.execute(api, storage, router, block, sender, msg);
        self.tap.end(pos, &r);
        r
    }
    fn sudo(
        &self,
        api: &dyn Api,
        contract_addr: Addr,
        storage: &mut dyn Storage,
        router: &dyn CosmosRouter<ExecC = Empty, QueryC = Empty>,
        block: &BlockInfo,
        msg: Binary,
    ) -> AnyResult<AppResponse> {
        self.inner
            .sudo(api, contract_addr, storage, router, block, msg)
    }
}

pub struct TapBank {
    pub inner: BankKeeper,
    pub tap: Tap,
}
impl Bank for TapBank {}
impl Module for TapBank {
    type ExecT = BankMsg;
    type QueryT = BankQuery;
    type SudoT = BankSudo;
    fn execute<ExecC, QueryC>(
        &self,
        api: &dyn Api,
        storage: &mut dyn Storage,
        router: &dyn CosmosRouter<ExecC = ExecC, QueryC = QueryC>,
        block: &BlockInfo,
        sender: Addr,
        msg: BankMsg,
    ) -> AnyResult<AppResponse>
    where
        ExecC: std::fmt::Debug + Clone + PartialEq + JsonSchema + DeserializeOwned + 'static,
        QueryC: CustomQuery + DeserializeOwned + 'static,
    {
        let d = match &msg {
            BankMsg::Send { to_address, amount } => Dispatch {
                idx: 0,
                kind: DKind::Bank,
                sender: sender.to_string(),
                target: to_address.clone(),
                msg: serde_json::json!({"send": amount.iter().map(|c| format!("{}{}", c.amount, c.denom)).collect::<Vec<_>>()}),
                funds: amount
                    .iter()
                    .map(|c| (c.denom.clone(), c.amount.u128()))
                    .collect(),
                ok: false,
                injected: false,
                events: vec![],
            },
            _ => Dispatch {
                idx: 0,
                kind: DKind::Bank,
                sender: sender.to_string(),
                target: "<bank-other>".into(),
                msg: serde_json::Value::Null,
                funds: vec![],
                ok: false,
                injected: false,
                events: vec![],
            },
        };
        let pos = self.tap.begin(d)?;
        let r = self.inner.execute(api, storage, router, block, sender, msg);
        self.tap.end(pos, &r);
        r
    }
    fn sudo<ExecC, QueryC>(
        &self,
        api: &dyn Api,
        storage: &mut dyn Storage,
        router: &dyn CosmosRouter<ExecC = ExecC, QueryC = QueryC>,
        block: &BlockInfo,
        msg: BankSudo,
    ) -> AnyResult<AppResponse>
    where
        ExecC: std::fmt::Debug + Clone + PartialEq + JsonSchema + DeserializeOwned + 'static,
        QueryC: CustomQuery + DeserializeOwned + 'static,
    {
        self.inner.sudo(api, storage, router, block, msg)
    }
    fn query(
        &self,
        api: &dyn Api,
        storage: &dyn Storage,
        querier: &dyn Querier,
        block: &BlockInfo,
        request: BankQuery,
    ) -> AnyResult<Binary> {
        self.inner.query(api, storage, querier, block, request)
    }
}

pub struct NoCustom;
impl Module for NoCustom {
    type ExecT = Empty;
    type QueryT = Empty;
    type SudoT = Empty;
    fn execute<ExecC, QueryC>(
        &self,
        _: &dyn Api,
        _: &mut dyn Storage,
        _: &dyn CosmosRouter<ExecC = ExecC, QueryC = QueryC>,
        _: &BlockInfo,
        _: Addr,
        _: Empty,
    ) -> AnyResult<AppResponse>
    where
        ExecC: std::fmt::Debug + Clone + PartialEq + JsonSchema + DeserializeOwned + 'static,
        QueryC: CustomQuery + DeserializeOwned + 'static,
    {
        bail!("no custom")
    }
    fn sudo<ExecC, QueryC>(
        &self,
        _: &dyn Api,
        _: &mut dyn Storage,
        _: &dyn CosmosRouter<ExecC = ExecC, QueryC = QueryC>,
        _: &BlockInfo,
        _: Empty,
    ) -> AnyResult<AppResponse>
    where
        ExecC: std::fmt::Debug + Clone + PartialEq + JsonSchema + DeserializeOwned + 'static,
        QueryC: CustomQuery + DeserializeOwned + 'static,
    {
        bail!("no custom")
    }
    fn query(
        &self,
        _: &dyn Api,
        _: &dyn Storage,
        _: &dyn Querier,
        _: &BlockInfo,
        _: Empty,
    ) -> AnyResult<Binary> {
        bail!("no custom")
    }
}

pub type MyApp =
    App<TapBank, MockApi, SnapStorage, NoCustom, TapWasm, FailingStaking, FailingDistribution>;
