//! Messages for execute variants the harness has no action for, synthesised from the contract's own JSON schema.
//!
//! The properties quantify over *every* transaction. The action alphabets are written against the execute variants
//! that exist today; an entry point added later would be invisible to them. This module reads the schema of the
//! engine's `ExecuteMsg` (schemars, the same source the repository's schema files are generated from), finds the
//! variants outside the harness's list and builds, for each, every combination of a few values per field: account
//! and contract addresses for strings, a few amounts for numeric strings, every member of an enum, both booleans,
//! and for `Binary` fields the base64 of a handful of hook-style JSON messages. On the unchanged tree there is no
//! such variant and the list is empty.
use serde_json::{json, Map, Value};

use crate::world::World;

/// engine execute variants the action alphabets know (snake_case names as they appear in the schema)
pub const KNOWN_ENGINE_VARIANTS: [&str; 11] = [
    "update_config",
    "update_pauser",
    "add_whitelist",
    "remove_whitelist",
    "open_position",
    "close_position",
    "liquidate",
    "pay_funding",
    "deposit_margin",
    "withdraw_margin",
    "set_pause",
];

const MAX_PER_VARIANT: usize = 400;

struct Ctx<'a> {
    defs: &'a Map<String, Value>,
    strings: Vec<String>,
    amounts: Vec<String>,
    binaries: Vec<String>,
}

fn b64(v: &Value) -> String {
    cosmwasm_std::Binary(serde_json::to_vec(v).unwrap()).to_base64()
}

fn resolve<'a>(s: &'a Value, cx: &'a Ctx) -> (&'a Value, Option<&'a str>) {
    // follows $ref / single-element allOf / anyOf [x, null]; returns the schema and the definition name it came from
    let mut cur = s;
    let mut name = None;
    for _ in 0..8 {
        if let Some(r) = cur.get("$ref").and_then(|r| r.as_str()) {
            let n = r.rsplit('/').next().unwrap_or("");
            if let Some(d) = cx.defs.get(n) {
                name = Some(n);
                cur = d;
                continue;
            }
        }
        if let Some(a) = cur.get("allOf").and_then(|a| a.as_array()) {
            if a.len() == 1 {
                cur = &a[0];
                continue;
            }
        }
        if let Some(a) = cur.get("anyOf").and_then(|a| a.as_array()) {
            if let Some(x) = a.iter().find(|x| x.get("type").and_then(|t| t.as_str()) != Some("null")) {
                cur = x;
                continue;
            }
        }
        break;
    }
    (cur, name)
}

fn gen(s: &Value, cx: &Ctx, depth: usize) -> Vec<Value> {
    if depth > 6 {
        return vec![Value::Null];
    }
    let (s, name) = resolve(s, cx);
    if let Some(en) = s.get("enum").and_then(|e| e.as_array()) {
        return en.clone();
    }
    if let Some(one) = s.get("oneOf").and_then(|e| e.as_array()) {
        let mut out = vec![];
        for o in one {
            out.extend(gen(o, cx, depth + 1).into_iter().take(3));
        }
        return out;
    }
    let ty = match s.get("type") {
        Some(Value::String(t)) => t.as_str(),
        Some(Value::Array(a)) => a.iter().filter_map(|x| x.as_str()).find(|x| *x != "null").unwrap_or("null"),
        _ => "object",
    };
    match ty {
        "string" => match name {
            Some("Uint128") | Some("Uint64") | Some("Uint256") | Some("Decimal") | Some("Integer") | Some("Uint512") => cx.amounts.iter().map(|a| json!(a)).collect(),
            Some("Binary") => cx.binaries.iter().map(|b| json!(b)).collect(),
            _ => cx.strings.iter().map(|a| json!(a)).collect(),
        },
        "integer" | "number" => vec![json!(0), json!(1), json!(7)],
        "boolean" => vec![json!(true), json!(false)],
        "array" => {
            let item = s.get("items").cloned().unwrap_or(json!({}));
            let xs = gen(&item, cx, depth + 1);
            vec![json!([]), Value::Array(xs.into_iter().take(2).collect())]
        }
        "null" => vec![Value::Null],
        _ => {
            // object: cartesian product over the required properties (optional ones are left out)
            let props = s.get("properties").and_then(|p| p.as_object()).cloned().unwrap_or_default();
            let req: Vec<String> = s.get("required").and_then(|r| r.as_array()).map(|r| r.iter().filter_map(|x| x.as_str().map(|x| x.to_string())).collect()).unwrap_or_default();
            let mut out: Vec<Map<String, Value>> = vec![Map::new()];
            for k in req {
                let vals = gen(props.get(&k).unwrap_or(&json!({})), cx, depth + 1);
                let mut next = vec![];
                for o in &out {
                    for v in &vals {
                        let mut o2 = o.clone();
                        o2.insert(k.clone(), v.clone());
                        next.push(o2);
                        if next.len() >= MAX_PER_VARIANT {
                            break;
                        }
                    }
                    if next.len() >= MAX_PER_VARIANT {
                        break;
                    }
                }
                out = next;
            }
            out.into_iter().map(Value::Object).collect()
        }
    }
}

/// (variant name, message) for every engine execute variant outside `KNOWN_ENGINE_VARIANTS`
pub fn unknown_engine_msgs(w: &World) -> Vec<(String, Value)> {
    let root = serde_json::to_value(schemars::schema_for!(margined_perp::margined_engine::ExecuteMsg)).unwrap();
    let empty = Map::new();
    let defs = root.get("definitions").and_then(|d| d.as_object()).unwrap_or(&empty);
    let v0 = w.vamms[0].to_string();
    let d = w.d;
    let hook_msgs = vec![
        json!({"deposit_margin": {"vamm": v0, "amount": (7 * d).to_string()}}),
        json!({"withdraw_margin": {"vamm": v0, "amount": (7 * d).to_string()}}),
        json!({"open_position": {"vamm": v0, "side": "buy", "margin_amount": (7 * d).to_string(), "leverage": (2 * d).to_string(), "base_asset_limit": "0"}}),
        json!({"close_position": {"vamm": v0, "quote_asset_limit": "0"}}),
        json!({"liquidate": {"vamm": v0, "trader": "alice", "quote_asset_limit": "0"}}),
        json!({}),
    ];
    let cx = Ctx {
        defs,
        strings: vec!["alice".into(), "bob".into(), v0.clone(), w.engine.to_string()],
        amounts: vec!["0".into(), "1".into(), (7 * d).to_string()],
        binaries: hook_msgs.iter().map(b64).collect(),
    };
    let mut out = vec![];
    let variants = root.get("oneOf").or_else(|| root.get("anyOf")).and_then(|x| x.as_array()).cloned().unwrap_or_default();
    for var in variants {
        // unit variants are plain strings in an enum
        if let Some(en) = var.get("enum").and_then(|e| e.as_array()) {
            for n in en {
                if let Some(n) = n.as_str() {
                    if !KNOWN_ENGINE_VARIANTS.contains(&n) {
                        out.push((n.to_string(), json!(n)));
                    }
                }
            }
            continue;
        }
        let name = match var.get("required").and_then(|r| r.as_array()).and_then(|r| r.first()).and_then(|n| n.as_str()) {
            Some(n) => n.to_string(),
            None => continue,
        };
        if KNOWN_ENGINE_VARIANTS.contains(&name.as_str()) {
            continue;
        }
        let body = var.get("properties").and_then(|p| p.get(&name)).cloned().unwrap_or(json!({}));
        for b in gen(&body, &cx, 0).into_iter().take(MAX_PER_VARIANT) {
            let mut m = Map::new();
            m.insert(name.clone(), b);
            out.push((name.clone(), Value::Object(m)));
        }
    }
    out
}
